(* Tools/DiffTotal.v — C12: the diff model never takes a Panic branch on closed documents (every $ref names a
   definition, every array schema carries items — what Swagger 2.0 validity demands), for every pair of documents and
   every amount of fuel.  The Panic outcomes of the model are the nil dereferences of the real analyser. *)
From Coq Require Import Lia.
From GS Require Import Base.Str Gen.GenDiffTables Tools.DiffTypes Tools.DiffSpec Tools.DiffReport Tools.DiffModel Tools.DiffModelLemmas Tools.DiffIdentity.

Definition has_items (items : option schema) : bool := match items with Some _ => true | None => false end.
Definition arr_ok (typ : list str) (format : str) (items : option schema) : bool :=
  match typ with
  | [] => true
  | t :: _ => if str_eqb t (s "array") || str_eqb (prim_type_string t format) (s "array") then has_items items else true
  end.

Fixpoint closedb (d : defs) (x : schema) : bool :=
  let 'Schema ref typ format _ _ items props _ allof := x in
  (is_empty ref || has_key ref d) && arr_ok typ format items &&
  (match items with Some i => closedb d i | None => true end) &&
  (fix go (l : list (str * schema)) : bool := match l with [] => true | (_, p) :: r => closedb d p && go r end) props &&
  (fix go (l : list schema) : bool := match l with [] => true | a :: r => closedb d a && go r end) allof.

Definition closed_defs (d : defs) : Prop := forall n sc, In (n, sc) d -> closedb d sc = true.

Lemma closedb_parts d x : closedb d x = true ->
  (is_ref x = true -> has_key (sc_ref x) d = true) /\ arr_ok (sc_typ x) (sc_format x) (sc_items x) = true /\
  (forall i, sc_items x = Some i -> closedb d i = true) /\
  (forall k p, In (k, p) (sc_props x) -> closedb d p = true) /\ (forall a, In a (sc_allof x) -> closedb d a = true).
Proof.
  destruct x as [r t f de v items props req allof]. cbn [closedb sc_ref sc_typ sc_format sc_items sc_props sc_allof is_ref]. intros H.
  apply andb_prop in H as [H Ha]. apply andb_prop in H as [H Hp]. apply andb_prop in H as [H Hi]. apply andb_prop in H as [Hr Har].
  split; [|split; [exact Har|split; [|split]]].
  - intros R. unfold is_ref in R. cbn [sc_ref] in R. destruct (is_empty r); [cbn in R; discriminate | exact Hr].
  - intros i E. subst items. exact Hi.
  - induction props as [|[k0 p0] r0 IH]; intros k p Hin; [contradiction|].
    apply andb_prop in Hp as [P1 P2]. destruct Hin as [E|Hin]; [inversion E; subst; exact P1 | apply (IH P2 k p Hin)].
  - induction allof as [|a0 r0 IH]; intros a Hin; [contradiction|].
    apply andb_prop in Ha as [A1 A2]. destruct Hin as [E|Hin]; [subst; exact A1 | apply (IH A2 a Hin)].
Qed.

(* ---------- the type-name helpers return ---------- *)
Fixpoint type_of_props_ok d (x : schema) : closedb d x = true -> exists r, type_of_props x = Ok r.
Proof.
  destruct x as [r t f de v items props req allof]. intros H.
  destruct (closedb_parts d _ H) as [_ [Har [Hi _]]]. cbn [sc_typ sc_format sc_items] in Har, Hi.
  cbn [type_of_props]. destruct (negb (is_empty r)); [eexists; reflexivity|].
  destruct t as [|t0 tr]; [eexists; reflexivity|]. cbn [arr_ok] in Har.
  destruct (str_eqb (prim_type_string t0 f) (s "array")) eqn:E; [|eexists; reflexivity].
  rewrite Bool.orb_true_r in Har. destruct items as [it|]; [|discriminate].
  destruct (type_of_props_ok d it (Hi it eq_refl)) as [r0 Hr]. rewrite Hr. eexists. reflexivity.
Qed.

Lemma type_of_schema_ok d x : closedb d x = true -> exists r, type_of_schema x = Ok r.
Proof.
  destruct x as [r t f de v items props req allof]. intros H.
  destruct (closedb_parts d _ H) as [_ [Har [Hi _]]]. cbn [sc_typ sc_format sc_items] in Har, Hi.
  cbn [type_of_schema]. destruct (negb (is_empty r)); [eexists; reflexivity|].
  destruct t as [|t0 tr]; [eexists; reflexivity|]. cbn [arr_ok] in Har.
  destruct (str_eqb t0 (s "array")) eqn:E; [|eexists; reflexivity].
  cbn [orb] in Har. destruct items as [it|]; [|discriminate].
  destruct (type_of_props_ok d it (Hi it eq_refl)) as [r0 Hr]. rewrite Hr. eexists. reflexivity.
Qed.

Lemma check_ref_change_ok tos x1 x2 :
  (exists r, tos x1 = Ok r) -> (exists r, tos x2 = Ok r) -> exists r, check_ref_change tos x1 x2 = Ok r.
Proof.
  intros [r1 H1] [r2 H2]. unfold check_ref_change. rewrite H1, H2. cbn [bind].
  destruct (is_ref x1 && is_ref x2); [destruct (str_eqb _ _); eexists; reflexivity|].
  destruct (Bool.eqb _ _); eexists; reflexivity.
Qed.

Lemma compare_props_ok d1 d2 x1 x2 : closedb d1 x1 = true -> closedb d2 x2 = true -> exists r, compare_props x1 x2 = Ok r.
Proof.
  intros C1 C2. destruct (type_of_props_ok d1 x1 C1) as [r1 H1]. destruct (type_of_props_ok d2 x2 C2) as [r2 H2].
  unfold compare_props. rewrite H1, H2. cbn [bind].
  destruct (negb (Bool.eqb _ _)); [eexists; reflexivity|].
  destruct (nonempty _); [eexists; reflexivity|].
  destruct (check_ref_change_ok type_of_props x1 x2 (ex_intro _ r1 H1) (ex_intro _ r2 H2)) as [rd Hd]. rewrite Hd. cbn [bind].
  destruct (nonempty rd); [eexists; reflexivity|]. destruct (negb _); [eexists; reflexivity|].
  destruct (nonempty _); eexists; reflexivity.
Qed.

Lemma schema_from_ref_ok d x sta : closed_defs d -> closedb d x = true -> is_ref x = true ->
  exists y, schema_from_ref d (sc_ref x) sta = Ok (y, mark_referenced (sc_ref x) sta) /\ closedb d y = true.
Proof.
  intros CD C R. destruct (closedb_parts d x C) as [HR _]. specialize (HR R). unfold has_key in HR.
  unfold schema_from_ref. destruct (assoc (sc_ref x) d) as [y|] eqn:A; [|discriminate].
  exists y. split; [reflexivity | apply (CD _ _ (assoc_In _ _ _ A))].
Qed.

(* either side of a comparison resolves to a closed schema *)
Lemma resolve_ok d x sta : closed_defs d -> closedb d x = true ->
  exists y sta', (if is_ref x then schema_from_ref d (sc_ref x) sta else Ok (x, sta)) = Ok (y, sta') /\ closedb d y = true.
Proof.
  intros CD C. destruct (is_ref x) eqn:R.
  - destruct (schema_from_ref_ok d x sta CD C R) as [y [E Cy]]. exists y. eexists. split; [exact E | exact Cy].
  - exists x, sta. split; [reflexivity | exact C].
Qed.

(* ---------- propertiesFor ---------- *)
Lemma fold_set_assoc_all {A} (P : str * A -> Prop) (new acc : list (str * A)) :
  (forall e, In e acc -> P e) -> (forall e, In e new -> P e) ->
  forall e, In e (fold_left (fun a kv => set_assoc (fst kv) (snd kv) a) new acc) -> P e.
Proof.
  revert acc. induction new as [|[k v] r IH]; intros acc HA HN e Hin; cbn [fold_left] in Hin; [apply HA; exact Hin|].
  apply (IH (set_assoc k v acc)); [| intros e' He'; apply HN; right; exact He' | exact Hin].
  intros e' He'. cbn [fst snd] in He'. apply set_assoc_in in He' as [E|He']; [subst e'; apply HN; left; reflexivity | apply HA; exact He'].
Qed.

Definition all_closed (d : defs) (l : plist) : Prop := forall k sc rq, In (k, (sc, rq)) l -> closedb d sc = true.

Lemma own_props_closed d x' : closedb d x' = true -> all_closed d (own_props x').
Proof.
  intros C. destruct (closedb_parts d x' C) as [_ [_ [_ [HP _]]]]. unfold own_props. intros k sc rq Hin.
  apply in_map_iff in Hin as [[k0 p0] [E Hin]]. inversion E; subst. apply (HP _ _ Hin).
Qed.

Lemma properties_for_np d : closed_defs d -> forall f x s, closedb d x = true ->
  properties_for f d x s <> Panic /\ (forall l s', properties_for f d x s = Ok (l, s') -> all_closed d l).
Proof.
  intros CD. induction f as [|f IH]; intros x s C; [split; [discriminate | intros l s' H; discriminate]|].
  rewrite properties_for_unfold. destruct (resolve_ok d x s CD C) as [x' [s1 [E Cx']]]. rewrite E.
  destruct (closedb_parts d x' Cx') as [_ [_ [_ [_ HA]]]].
  assert (forall la acc sa, (forall a, In a la -> closedb d a = true) -> all_closed d acc ->
            merge_allof (properties_for f d) la acc sa <> Panic /\
            (forall l s', merge_allof (properties_for f d) la acc sa = Ok (l, s') -> all_closed d l)) as LOOP.
  { induction la as [|m r IHr]; intros acc sa Wl G; cbn [merge_allof].
    - split; [discriminate|]. intros l s' H. inversion H; subst. exact G.
    - destruct (IH m sa (Wl m (or_introl eq_refl))) as [NP CL].
      destruct (properties_for f d m sa) as [[pl ps]| |] eqn:Em; [|contradiction|split; [discriminate | intros l s' H; discriminate]].
      cbn [fst snd]. apply IHr; [intros a Ha; apply Wl; right; exact Ha|].
      intros k sc rq Hin.
      apply (fold_set_assoc_all (fun e => closedb d (fst (snd e)) = true) pl acc
               (fun e He => match e as e0 return In e0 acc -> closedb d (fst (snd e0)) = true with (k0, (sc0, rq0)) => fun H0 => G k0 sc0 rq0 H0 end He)
               (fun e He => match e as e0 return In e0 pl -> closedb d (fst (snd e0)) = true with (k0, (sc0, rq0)) => fun H0 => CL pl ps eq_refl k0 sc0 rq0 H0 end He)
               (k, (sc, rq)) Hin). }
  apply (LOOP _ _ _ HA (own_props_closed d x' Cx')).
Qed.

Lemma add_child_node_ok d l name prop : closedb d prop = true -> exists cl, add_child_node l name prop = Ok cl.
Proof. intros C. unfold add_child_node. destruct (type_of_props_ok d prop C) as [r H]. rewrite H. eexists. reflexivity. Qed.

(* ---------- compareSchema and the document level ---------- *)
Lemma arr_items d y : closedb d y = true -> is_array_type (sc_typ y) = true -> exists i, sc_items y = Some i /\ closedb d i = true.
Proof.
  intros C A. destruct (closedb_parts d y C) as [_ [Har [Hi _]]]. unfold is_array_type in A. unfold arr_ok in Har.
  destruct (sc_typ y) as [|t r]; [discriminate|]. rewrite A in Har. cbn [orb] in Har.
  destruct (sc_items y) as [i|]; [|discriminate]. exists i. split; [reflexivity | apply Hi; reflexivity].
Qed.

Theorem compare_schema_np d1 d2 : closed_defs d1 -> closed_defs d2 -> forall f l x1 x2 sta,
  closedb d1 x1 = true -> closedb d2 x2 = true -> compare_schema f d1 d2 l x1 x2 sta <> Panic.
Proof.
  intros CD1 CD2. induction f as [|f IH]; intros l x1 x2 sta C1 C2 HP; [discriminate|].
  cbn [compare_schema] in HP.
  destruct (check_ref_change_ok type_of_schema x1 x2 (type_of_schema_ok d1 x1 C1) (type_of_schema_ok d2 x2 C2)) as [refd Hrd].
  rewrite Hrd in HP. cbn [bind] in HP.
  destruct (nonempty refd); [discriminate|].
  destruct (is_ref x1 && mem (schema_location_key l) (visited sta)); [discriminate|].
  assert (exists y1 s1, (if is_ref x1 then schema_from_ref d1 (sc_ref x1) (mark_visited (schema_location_key l) sta) else Ok (x1, sta)) = Ok (y1, s1) /\ closedb d1 y1 = true) as [y1 [s1 [E1 Cy1]]].
  { destruct (is_ref x1) eqn:R.
    - destruct (schema_from_ref_ok d1 x1 (mark_visited (schema_location_key l) sta) CD1 C1 R) as [y [E Cy]]. exists y. eexists. split; [exact E | exact Cy].
    - exists x1, sta. split; [reflexivity | exact C1]. }
  rewrite E1 in HP. cbn [bind] in HP.
  destruct (resolve_ok d2 x2 s1 CD2 C2) as [y2 [s2 [E2 Cy2]]]. rewrite E2 in HP. cbn [bind] in HP.
  destruct (compare_props_ok d1 d2 y1 y2 Cy1 Cy2) as [tds Htd]. rewrite Htd in HP. cbn [bind] in HP.
  destruct (nonempty tds); [discriminate|].
  match type of HP with bind ?X _ = _ => destruct X as [[arrd s3]| |] eqn:Earr end; cbn [bind] in HP; try discriminate.
  2:{ (* the array part cannot panic *)
      destruct (is_array_type (sc_typ y1)) eqn:A1; [|discriminate].
      destruct (is_array_type (sc_typ y2)) eqn:A2.
      - destruct (arr_items d1 y1 Cy1 A1) as [i1 [Ei1 Ci1]]. destruct (arr_items d2 y2 Cy2 A2) as [i2 [Ei2 Ci2]].
        rewrite Ei1, Ei2 in Earr. apply (IH _ _ _ _ Ci1 Ci2 Earr).
      - destruct (type_of_schema_ok d1 y1 Cy1) as [ta Ha]. destruct (type_of_schema_ok d2 y2 Cy2) as [tb Hb].
        rewrite Ha, Hb in Earr. discriminate. }
  destruct (negb (nonempty (sc_props y1)) && negb (nonempty (sc_props y2))); [discriminate|].
  destruct (properties_for_np d1 CD1 f y1 s3 Cy1) as [NP1 CL1].
  match type of HP with bind ?X _ = _ => destruct X as [[props1 s4]| |] eqn:Ep1 end; cbn [bind] in HP; try discriminate; [|contradiction].
  cbn [fst snd] in HP.
  destruct (properties_for_np d2 CD2 f y2 s4 Cy2) as [NP2 CL2].
  match type of HP with bind ?X _ = _ => destruct X as [[props2 s5]| |] eqn:Ep2 end; cbn [bind] in HP; try discriminate; [|contradiction].
  cbn [fst snd] in HP.
  specialize (CL1 _ _ eq_refl). specialize (CL2 _ _ eq_refl).
  (* the loop over the properties of the first schema *)
  match type of HP with bind (?F (sort_kv props1) s5) _ = _ =>
    assert (forall ps sa, (forall e, In e ps -> In e props1) -> F ps sa <> Panic) as LOOP end.
  { induction ps as [|[name [sc1 req1]] rest IHp]; intros sa Hin Hr; [discriminate|].
    destruct (add_child_node_ok d1 l name sc1 (CL1 _ _ _ (Hin _ (or_introl eq_refl)))) as [cl Hcl].
    rewrite Hcl in Hr. cbn [bind] in Hr.
    destruct (assoc name props2) as [[sc2 req2]|] eqn:A.
    - pose proof (CL2 _ _ _ (assoc_In _ _ _ A)) as Csc2.
      match type of Hr with bind (bind ?X _) _ = _ => destruct X as [[sd ss]| |] eqn:Esub end; cbn [bind] in Hr; try discriminate.
      + cbn [fst snd] in Hr.
        match type of Hr with bind ?X _ = _ => destruct X as [[rd rs]| |] eqn:Erest end; cbn [bind] in Hr; try discriminate.
        apply (IHp ss (fun e He => Hin e (or_intror He))). first [exact Erest | reflexivity].
      + apply (IH _ _ _ _ (CL1 _ _ _ (Hin _ (or_introl eq_refl))) Csc2 Esub).
    - cbn [bind fst snd] in Hr.
      match type of Hr with bind ?X _ = _ => destruct X as [[rd rs]| |] eqn:Erest end; cbn [bind] in Hr; try discriminate.
      apply (IHp sa (fun e He => Hin e (or_intror He))). first [exact Erest | reflexivity]. }
  match type of HP with bind ?X _ = _ => destruct X as [[cd cs]| |] eqn:Ec end; cbn [bind] in HP; try discriminate.
  2:{ apply (LOOP _ _ (fun e He => sort_kv_in _ e He) Ec). }
  clear LOOP.
  destruct (closedb_parts d2 y2 Cy2) as [_ [_ [_ [HP2 _]]]].
  match type of HP with bind (?F (sc_props y2)) _ = _ =>
    assert (forall ps, (forall e, In e ps -> In e (sc_props y2)) -> F ps <> Panic) as ADD end.
  { induction ps as [|[name sc2] rest IHp]; intros Hin Hr; [discriminate|].
    match type of Hr with bind ?X _ = _ => destruct X as [rd| |] eqn:Erest end; cbn [bind] in Hr; try discriminate.
    - destruct (has_key name (sc_props y1)); [discriminate|].
      destruct (add_child_node_ok d2 l name sc2 (HP2 _ _ (Hin _ (or_introl eq_refl)))) as [cl Hcl]. rewrite Hcl in Hr. discriminate.
    - apply (IHp (fun e He => Hin e (or_intror He))). first [exact Erest | reflexivity]. }
  match type of HP with bind ?X _ = _ => destruct X as [ad| |] eqn:Ea end; cbn [bind] in HP; try discriminate.
  apply (ADD _ (fun e He => He) Ea).
Qed.

(* ---------- parameters and headers ---------- *)
Lemma simple_schema_closed d typ format v (inner : option schema) :
  (match inner with Some i => closedb d i = true | None => str_eqb typ (s "array") = false /\ str_eqb (prim_type_string typ format) (s "array") = false end) ->
  closedb d (Schema [] [typ] format [] v inner [] [] []) = true.
Proof.
  intros H. cbn [closedb is_empty orb andb arr_ok]. destruct inner as [i|].
  - rewrite H. cbn [has_items]. destruct (str_eqb typ (s "array") || str_eqb (prim_type_string typ format) (s "array")); reflexivity.
  - destruct H as [H1 H2]. rewrite H1, H2. reflexivity.
Qed.

Fixpoint for_items_closed d (x : simple) : wf_simple x = true -> closedb d (for_items x) = true.
Proof.
  destruct x as [typ format c n df e v items]. intros W. cbn [for_items]. apply simple_schema_closed.
  destruct items as [it|]; cbn [wf_simple] in W.
  - apply for_items_closed. exact W.
  - apply andb_prop in W as [W1 W2]. apply Bool.negb_true_iff in W1. apply Bool.negb_true_iff in W2. split; assumption.
Qed.

Lemma for_simple_closed d (x : simple) : wf_simple x = true -> closedb d (for_simple x) = true.
Proof.
  destruct x as [typ format c n df e v items]. intros W. unfold for_simple. cbn [si_typ si_format si_vals si_items]. apply simple_schema_closed.
  destruct items as [it|]; cbn [wf_simple option_map] in *.
  - apply for_items_closed. exact W.
  - apply andb_prop in W as [W1 W2]. apply Bool.negb_true_iff in W1. apply Bool.negb_true_iff in W2. split; assumption.
Qed.

Fixpoint compare_simple_ok (x1 : simple) : forall l x2, wf_simple x1 = true -> wf_simple x2 = true -> exists r, compare_simple l x1 x2 = Ok r.
Proof.
  destruct x1 as [typ1 f1 c1 n1 d1 e1 v1 it1]. intros l x2 W1 W2.
  destruct (type_of_simple_ok _ W1) as [t1 H1]. destruct (type_of_simple_ok _ W2) as [t2 H2].
  cbn [compare_simple]. rewrite H1, H2. cbn [bind]. cbn [si_typ si_items].
  destruct (str_eqb typ1 (s "array")) eqn:A1; [|eexists; reflexivity].
  destruct (str_eqb (si_typ x2) (s "array")) eqn:A2; [|eexists; reflexivity].
  destruct x2 as [typ2 f2 c2 n2 d2 e2 v2 it2]. cbn [si_typ si_items wf_simple] in *.
  destruct it1 as [i1|]; [|apply andb_prop in W1 as [X _]; apply Bool.negb_true_iff in X; congruence].
  destruct it2 as [i2|]; [|apply andb_prop in W2 as [X _]; apply Bool.negb_true_iff in X; congruence].
  destruct (compare_simple_ok i1 l i2 W1 W2) as [r Hr]. rewrite Hr. eexists. reflexivity.
Qed.

Definition closed_param (d : defs) (p : param) : Prop :=
  (forall x, p_schema p = Some x -> closedb d x = true) /\ wf_simple (p_simple p) = true.

Lemma compare_params_np d1 d2 : closed_defs d1 -> closed_defs d2 -> forall f k location n p1 p2 sta,
  closed_param d1 p1 -> closed_param d2 p2 -> compare_params f d1 d2 k location n p1 p2 sta <> Panic.
Proof.
  intros CD1 CD2 f k location n p1 p2 sta [S1 W1] [S2 W2] HP. unfold compare_params in HP.
  destruct (compare_props_ok d1 d2 _ _ (for_simple_closed d1 _ W1) (for_simple_closed d2 _ W2)) as [tds Htd].
  destruct (type_of_simple_ok _ W2) as [r2 Hr2].
  destruct (p_schema p1) as [x1|] eqn:E1; destruct (p_schema p2) as [x2|] eqn:E2.
  - destruct (type_of_props_ok d2 x2 (S2 x2 eq_refl)) as [tr Htr].
    match type of HP with bind (bind ?X _) _ = _ => assert (exists cl, X = Ok cl) as [cl Hcl] end.
    { destruct (is_empty n); [eexists; reflexivity|]. rewrite Htr. eexists. reflexivity. }
    rewrite Hcl in HP. cbn [bind] in HP.
    match type of HP with bind (bind ?X _) _ = _ => destruct X as [[cd cs]| |] eqn:Ec end; cbn [bind fst snd] in HP; try discriminate.
    + rewrite Htd in HP. cbn [bind] in HP. rewrite Hr2 in HP. cbn [bind] in HP.
      destruct (compare_simple_ok (p_simple p1) (loc_add cl (node_of n r2)) (p_simple p2) W1 W2) as [r Hr]. rewrite Hr in HP. discriminate.
    + apply (compare_schema_np d1 d2 CD1 CD2 _ _ _ _ _ (S1 x1 eq_refl) (S2 x2 eq_refl) Ec).
  - cbn [bind] in HP. rewrite Htd in HP. cbn [bind] in HP. rewrite Hr2 in HP. cbn [bind] in HP.
    match type of HP with bind ?X _ = _ => assert (exists r, X = Ok r) as [r Hr] by (apply compare_simple_ok; assumption) end. rewrite Hr in HP. discriminate.
  - cbn [bind] in HP. rewrite Htd in HP. cbn [bind] in HP. rewrite Hr2 in HP. cbn [bind] in HP.
    match type of HP with bind ?X _ = _ => assert (exists r, X = Ok r) as [r Hr] by (apply compare_simple_ok; assumption) end. rewrite Hr in HP. discriminate.
  - cbn [bind] in HP. rewrite Htd in HP. cbn [bind] in HP. rewrite Hr2 in HP. cbn [bind] in HP.
    match type of HP with bind ?X _ = _ => assert (exists r, X = Ok r) as [r Hr] by (apply compare_simple_ok; assumption) end. rewrite Hr in HP. discriminate.
Qed.

(* ---------- whole documents ---------- *)
Definition closed_response (d : defs) (r : response) : Prop :=
  (forall x, r_schema r = Some x -> closedb d x = true) /\ (forall n h, In (n, h) (r_headers r) -> wf_simple h = true).
Definition closed_operation (d : defs) (o : operation) : Prop :=
  (forall p, In p (o_params o) -> closed_param d p) /\ (forall c r, In (c, r) (o_responses o) -> closed_response d r).
Definition closed_um (d : defs) (um : um_t) : Prop :=
  forall k pit op, In (k, (pit, op)) um -> (forall p, In p (pi_params pit) -> closed_param d p) /\ closed_operation d op.

Lemma find_um_in (um : um_t) k v : find_um k um = Some v -> exists k', In (k', v) um.
Proof.
  induction um as [|[k' v'] r IH]; intros H; [discriminate|]. cbn [find_um] in H.
  destruct (str_eqb (fst k) (fst k') && str_eqb (snd k) (snd k')).
  - inversion H; subst. exists k'. left. reflexivity.
  - destruct (IH H) as [k2 Hin]. exists k2. right. exact Hin.
Qed.

Lemma assocZ_in {A} (l : list (Z * A)) c v : assocZ c l = Some v -> In (c, v) l.
Proof.
  induction l as [|[c' v'] r IH]; intros H; [discriminate|]. cbn [assocZ] in H.
  destruct (Z.eqb_spec c c') as [->|Ne]; [inversion H; left; reflexivity | right; apply IH; exact H].
Qed.

Lemma analyse_request_params_np d1 d2 : closed_defs d1 -> closed_defs d2 -> forall f (um1 um2 : um_t) sta,
  closed_um d1 um1 -> closed_um d2 um2 -> analyse_request_params f d1 d2 um1 um2 sta <> Panic.
Proof.
  intros CD1 CD2 f um1 um2 sta U1 U2. unfold analyse_request_params.
  generalize param_locations as ls. intros ls. revert sta.
  induction ls as [|location lr IHl]; intros sta HP; [discriminate|].
  match type of HP with bind ?X _ = _ => destruct X as [[hd hs]| |] eqn:Eh end; cbn [bind fst snd] in HP; try discriminate.
  { match type of HP with bind ?X _ = _ => destruct X as [[rd rs]| |] eqn:Er end; cbn [bind] in HP; try discriminate.
    apply (IHl _ Er). }
  clear HP IHl.
  match type of Eh with ?F um2 sta = _ =>
    assert (forall es sa, (forall e, In e es -> In e um2) -> F es sa <> Panic) as LOOP end.
  { induction es as [|[k [pit2 op2]] er IHe]; intros sa Hin Hr; [discriminate|].
    destruct (U2 _ _ _ (Hin _ (or_introl eq_refl))) as [Wpi2 [Wop2 _]].
    destruct (find_um k um1) as [[pit1 op1]|] eqn:Ef.
    - destruct (find_um_in _ _ _ Ef) as [k1 Hin1]. destruct (U1 _ _ _ Hin1) as [Wpi1 [Wop1 _]].
      destruct (get_params_spec (pi_params pit1) (o_params op1) location (closed_param d1) Wpi1 Wop1) as [_ WP1].
      destruct (get_params_spec (pi_params pit2) (o_params op2) location (closed_param d2) Wpi2 Wop2) as [_ WP2].
      set (params1 := get_params (pi_params pit1) (o_params op1) location) in *.
      set (params2 := get_params (pi_params pit2) (o_params op2) location) in *.
      match type of Hr with bind (bind ?X _) _ = _ => destruct X as [del| |] eqn:Ed end; cbn [bind] in Hr; try discriminate.
      + match type of Hr with bind (bind ?X _) _ = _ => destruct X as [[chd chs]| |] eqn:Ec end; cbn [bind fst snd] in Hr; try discriminate.
        * match type of Hr with bind ?X _ = _ => destruct X as [[rd1 rs1]| |] eqn:Er1 end; cbn [bind] in Hr; try discriminate.
          apply (IHe chs (fun e He => Hin e (or_intror He))). first [exact Er1 | reflexivity].
        * (* changed *)
          match type of Ec with ?G params2 sa = _ =>
            assert (forall ps sb, (forall e, In e ps -> In e params2) -> G ps sb <> Panic) as CH end.
          { induction ps as [|[n p2] rest IHp]; intros sb Hin2 Hr2; [discriminate|].
            pose proof (WP2 _ _ (Hin2 _ (or_introl eq_refl))) as Cp2.
            destruct (assoc n params1) as [p1|] eqn:A1.
            - pose proof (WP1 _ _ (assoc_In _ _ _ A1)) as Cp1.
              match type of Hr2 with bind ?X _ = _ => destruct X as [[hd2 hs2]| |] eqn:Eh2 end; cbn [bind fst snd] in Hr2; try discriminate.
              + match type of Hr2 with bind ?X _ = _ => destruct X as [[rd2 rs2]| |] eqn:Er2 end; cbn [bind] in Hr2; try discriminate.
                apply (IHp hs2 (fun e He => Hin2 e (or_intror He))). first [exact Er2 | reflexivity].
              + apply (compare_params_np d1 d2 CD1 CD2 _ _ _ _ _ _ _ Cp1 Cp2 Eh2).
            - destruct Cp2 as [_ W2]. destruct (type_of_simple_ok _ W2) as [t Ht]. rewrite Ht in Hr2. cbn [bind fst snd] in Hr2.
              match type of Hr2 with bind ?X _ = _ => destruct X as [[rd2 rs2]| |] eqn:Er2 end; cbn [bind] in Hr2; try discriminate.
              apply (IHp sb (fun e He => Hin2 e (or_intror He))). first [exact Er2 | reflexivity]. }
          apply (CH _ _ (fun e He => He) Ec).
      + (* deleted *)
        match type of Ed with ?G params1 = _ =>
          assert (forall ps, (forall e, In e ps -> In e params1) -> G ps <> Panic) as DL end.
        { induction ps as [|[n p] rest IHp]; intros Hin2 Hr2; [discriminate|].
          match type of Hr2 with bind ?X _ = _ => destruct X as [rd3| |] eqn:Erest end; cbn [bind] in Hr2; try discriminate.
          - destruct (has_key n params2); [discriminate|].
            destruct (WP1 _ _ (Hin2 _ (or_introl eq_refl))) as [_ W]. destruct (type_of_simple_ok _ W) as [t Ht]. rewrite Ht in Hr2. discriminate.
          - apply (IHp (fun e He => Hin2 e (or_intror He))). first [exact Erest | reflexivity]. }
        apply (DL _ (fun e He => He) Ed).
    - cbn [bind fst snd] in Hr.
      match type of Hr with bind ?X _ = _ => destruct X as [[rd1 rs1]| |] eqn:Er1 end; cbn [bind] in Hr; try discriminate.
      apply (IHe sa (fun e He => Hin e (or_intror He))). first [exact Er1 | reflexivity]. }
  apply (LOOP _ _ (fun e He => He) Eh).
Qed.

Lemma body_node_ok d x : closedb d x = true -> exists n, body_node x = Ok n.
Proof. intros C. unfold body_node. destruct (type_of_props_ok d x C) as [r H]. rewrite H. eexists. reflexivity. Qed.

Lemma analyse_response_np d1 d2 : closed_defs d1 -> closed_defs d2 -> forall f k code r1 r2 sta,
  closed_response d1 r1 -> closed_response d2 r2 -> analyse_response f d1 d2 k code r1 r2 sta <> Panic.
Proof.
  intros CD1 CD2 f k code r1 r2 sta [S1 H1] [S2 H2] HP. unfold analyse_response in HP.
  match type of HP with bind ?X _ = _ => destruct X as [h2| |] eqn:E2 end; cbn [bind] in HP; try discriminate.
  2:{ match type of E2 with ?G (r_headers r2) = _ =>
        assert (forall hs, (forall e, In e hs -> In e (r_headers r2)) -> G hs <> Panic) as L end.
      { induction hs as [|[n h] rest IHh]; intros Hin Hr; [discriminate|].
        match type of Hr with bind ?X _ = _ => destruct X as [rd| |] eqn:Erest end; cbn [bind] in Hr; try discriminate.
        - pose proof (H2 _ _ (Hin _ (or_introl eq_refl))) as Wh.
          destruct (assoc n (r_headers r1)) as [h1|] eqn:A.
          + destruct (compare_props_ok d1 d2 _ _ (for_simple_closed d1 _ (H1 _ _ (assoc_In _ _ _ A))) (for_simple_closed d2 _ Wh)) as [tds Htd].
            rewrite Htd in Hr. discriminate.
          + destruct (type_of_simple_ok _ Wh) as [t Ht]. rewrite Ht in Hr. discriminate.
        - apply (IHh (fun e He => Hin e (or_intror He))). first [exact Erest | reflexivity]. }
      apply (L _ (fun e He => He) E2). }
  match type of HP with bind ?X _ = _ => destruct X as [h1| |] eqn:E1 end; cbn [bind] in HP; try discriminate.
  2:{ match type of E1 with ?G (r_headers r1) = _ =>
        assert (forall hs, (forall e, In e hs -> In e (r_headers r1)) -> G hs <> Panic) as L end.
      { induction hs as [|[n h] rest IHh]; intros Hin Hr; [discriminate|].
        match type of Hr with bind ?X _ = _ => destruct X as [rd| |] eqn:Erest end; cbn [bind] in Hr; try discriminate.
        - destruct (has_key n (r_headers r2)); [discriminate|].
          destruct (type_of_simple_ok _ (H1 _ _ (Hin _ (or_introl eq_refl)))) as [t Ht]. rewrite Ht in Hr. discriminate.
        - apply (IHh (fun e He => Hin e (or_intror He))). first [exact Erest | reflexivity]. }
      apply (L _ (fun e He => He) E1). }
  assert (exists nd, match r_schema r1 with Some x => body_node x | None => Ok (leaf (s "NoContent")) end = Ok nd) as [nd End].
  { destruct (r_schema r1) as [x|] eqn:Ex; [apply (body_node_ok d1 x (S1 x eq_refl)) | eexists; reflexivity]. }
  rewrite End in HP. cbn [bind] in HP.
  destruct (r_schema r1) as [x1|] eqn:Ex1; destruct (r_schema r2) as [x2|] eqn:Ex2.
  - destruct (body_node_ok d1 x1 (S1 x1 eq_refl)) as [n Hn]. rewrite Hn in HP. cbn [bind] in HP.
    match type of HP with bind ?X _ = _ => destruct X as [[bd bs]| |] eqn:Ec end; cbn [bind] in HP; try discriminate.
    apply (compare_schema_np d1 d2 CD1 CD2 _ _ _ _ _ (S1 x1 eq_refl) (S2 x2 eq_refl) Ec).
  - destruct (body_node_ok d1 x1 (S1 x1 eq_refl)) as [n Hn]. rewrite Hn in HP. discriminate.
  - destruct (body_node_ok d2 x2 (S2 x2 eq_refl)) as [n Hn]. rewrite Hn in HP. discriminate.
  - discriminate.
Qed.

Lemma analyse_response_params_np d1 d2 : closed_defs d1 -> closed_defs d2 -> forall f (um1 um2 : um_t) sta,
  closed_um d1 um1 -> closed_um d2 um2 -> analyse_response_params f d1 d2 um1 um2 sta <> Panic.
Proof.
  intros CD1 CD2 f um1 um2 sta U1 U2 HP. unfold analyse_response_params in HP.
  match type of HP with ?F um2 sta = _ =>
    assert (forall es sa, (forall e, In e es -> In e um2) -> F es sa <> Panic) as LOOP end.
  { induction es as [|[k [pit2 op2]] er IHe]; intros sa Hin Hr; [discriminate|].
    destruct (U2 _ _ _ (Hin _ (or_introl eq_refl))) as [_ [_ R2]].
    destruct (find_um k um1) as [[pit1 op1]|] eqn:Ef.
    - destruct (find_um_in _ _ _ Ef) as [k1 Hin1]. destruct (U1 _ _ _ Hin1) as [_ [_ R1]].
      match type of Hr with bind (bind ?X _) _ = _ => destruct X as [del| |] eqn:Ed end; cbn [bind] in Hr; try discriminate.
      + match type of Hr with bind (bind ?X _) _ = _ => destruct X as [[chd chs]| |] eqn:Ec end; cbn [bind fst snd] in Hr; try discriminate.
        * match type of Hr with bind ?X _ = _ => destruct X as [[rd1 rs1]| |] eqn:Er1 end; cbn [bind] in Hr; try discriminate.
          apply (IHe chs (fun e He => Hin e (or_intror He))). first [exact Er1 | reflexivity].
        * match type of Ec with ?G (sort_zkv (o_responses op2)) sa = _ =>
            assert (forall rs sb, (forall e, In e rs -> In e (o_responses op2)) -> G rs sb <> Panic) as CH end.
          { induction rs as [|[c r2] rest IHp]; intros sb Hin2 Hr2; [discriminate|].
            pose proof (R2 _ _ (Hin2 _ (or_introl eq_refl))) as Cr2.
            destruct (assocZ c (o_responses op1)) as [r1|] eqn:A1.
            - pose proof (R1 _ _ (assocZ_in _ _ _ A1)) as Cr1.
              match type of Hr2 with bind ?X _ = _ => destruct X as [[hd2 hs2]| |] eqn:Eh2 end; cbn [bind fst snd] in Hr2; try discriminate.
              + match type of Hr2 with bind ?X _ = _ => destruct X as [[rd2 rs2]| |] eqn:Er2 end; cbn [bind] in Hr2; try discriminate.
                apply (IHp hs2 (fun e He => Hin2 e (or_intror He))). first [exact Er2 | reflexivity].
              + apply (analyse_response_np d1 d2 CD1 CD2 _ _ _ _ _ _ Cr1 Cr2 Eh2).
            - assert (exists nd, match r_schema r2 with Some x => body_node x | None => Ok (leaf (s "NoContent")) end = Ok nd) as [nd End].
              { destruct Cr2 as [S2 _]. destruct (r_schema r2) as [x|] eqn:Ex; [apply (body_node_ok d2 x (S2 x eq_refl)) | eexists; reflexivity]. }
              rewrite End in Hr2. cbn [bind fst snd] in Hr2.
              match type of Hr2 with bind ?X _ = _ => destruct X as [[rd2 rs2]| |] eqn:Er2 end; cbn [bind] in Hr2; try discriminate.
              apply (IHp sb (fun e He => Hin2 e (or_intror He))). first [exact Er2 | reflexivity]. }
          apply (CH _ _ (fun e He => sort_zkv_in _ e He) Ec).
      + match type of Ed with ?G (o_responses op1) = _ =>
          assert (forall rs, (forall e, In e rs -> In e (o_responses op1)) -> G rs <> Panic) as DL end.
        { induction rs as [|[c r1] rest IHp]; intros Hin2 Hr2; [discriminate|].
          match type of Hr2 with bind ?X _ = _ => destruct X as [rd3| |] eqn:Erest end; cbn [bind] in Hr2; try discriminate.
          - destruct (assocZ c (o_responses op2)); [discriminate|].
            assert (exists nd, match r_schema r1 with Some x => body_node x | None => Ok (leaf (s "NoContent")) end = Ok nd) as [nd End].
            { destruct (R1 _ _ (Hin2 _ (or_introl eq_refl))) as [S1 _]. destruct (r_schema r1) as [x|] eqn:Ex; [apply (body_node_ok d1 x (S1 x eq_refl)) | eexists; reflexivity]. }
            rewrite End in Hr2. discriminate.
          - apply (IHp (fun e He => Hin2 e (or_intror He))). first [exact Erest | reflexivity]. }
        apply (DL _ (fun e He => He) Ed).
    - cbn [bind fst snd] in Hr.
      match type of Hr with bind ?X _ = _ => destruct X as [[rd1 rs1]| |] eqn:Er1 end; cbn [bind] in Hr; try discriminate.
      apply (IHe sa (fun e He => Hin e (or_intror He))). first [exact Er1 | reflexivity]. }
  apply (LOOP _ _ (fun e He => He) HP).
Qed.

Lemma analyse_definitions_np d1 d2 : closed_defs d1 -> closed_defs d2 -> forall f sta, analyse_definitions f d1 d2 sta <> Panic.
Proof.
  intros CD1 CD2 f sta HP. unfold analyse_definitions in HP.
  match type of HP with bind ?X _ = _ => destruct X as [[cd cs]| |] eqn:Ec end; cbn [bind] in HP; try discriminate.
  match type of Ec with ?G (sort_kv d1) sta = _ =>
    assert (forall l sb, (forall e, In e l -> In e d1) -> G l sb <> Panic) as L end.
  { induction l as [|[n x1] rest IHl]; intros sb Hin Hr; [discriminate|].
    match type of Hr with bind ?X _ = _ => destruct X as [[hd hs]| |] eqn:Eh end; cbn [bind fst snd] in Hr; try discriminate.
    - match type of Hr with bind ?X _ = _ => destruct X as [[rd2 rs2]| |] eqn:Er2 end; cbn [bind] in Hr; try discriminate.
      apply (IHl hs (fun e He => Hin e (or_intror He))). first [exact Er2 | reflexivity].
    - destruct (mem n (referenced sta)); [discriminate|].
      destruct (assoc n d2) as [x2|] eqn:A2; [|discriminate].
      apply (compare_schema_np d1 d2 CD1 CD2 _ _ _ _ _ (CD1 _ _ (Hin _ (or_introl eq_refl))) (CD2 _ _ (assoc_In _ _ _ A2)) Eh). }
  apply (L _ _ (fun e He => sort_kv_in _ e He) Ec).
Qed.

Definition closed_swagger (a : swagger) : Prop := closed_defs (sw_defs a) /\ closed_um (sw_defs a) (url_methods a).

Theorem analyse_np f a b : closed_swagger a -> closed_swagger b -> analyse f a b <> Panic.
Proof.
  intros [CDa Ua] [CDb Ub] HP. unfold analyse in HP.
  match type of HP with bind ?X _ = _ => destruct X as [[rq s1]| |] eqn:E1 end; cbn [bind fst snd] in HP; try discriminate.
  2:{ apply (analyse_request_params_np _ _ CDa CDb _ _ _ _ Ua Ub E1). }
  match type of HP with bind ?X _ = _ => destruct X as [[rs s2]| |] eqn:E2 end; cbn [bind fst snd] in HP; try discriminate.
  2:{ apply (analyse_response_params_np _ _ CDa CDb _ _ _ _ Ua Ub E2). }
  match type of HP with bind ?X _ = _ => destruct X as [[df s3]| |] eqn:E3 end; cbn [bind fst snd] in HP; try discriminate.
  apply (analyse_definitions_np _ _ CDa CDb _ _ E3).
Qed.

(* ---------- boolean test of closedness ---------- *)
Definition closed_paramb (d : defs) (p : param) : bool := (match p_schema p with Some x => closedb d x | None => true end) && wf_simple (p_simple p).
Definition closed_responseb (d : defs) (r : response) : bool :=
  (match r_schema r with Some x => closedb d x | None => true end) && forallb (fun nh => wf_simple (snd nh)) (r_headers r).
Definition closed_operationb (d : defs) (o : operation) : bool :=
  forallb (closed_paramb d) (o_params o) && forallb (fun cr => closed_responseb d (snd cr)) (o_responses o).
Definition closed_swaggerb (a : swagger) : bool :=
  forallb (fun kv => closedb (sw_defs a) (snd kv)) (sw_defs a) &&
  forallb (fun e => forallb (closed_paramb (sw_defs a)) (pi_params (fst (snd e))) && closed_operationb (sw_defs a) (snd (snd e))) (url_methods a).

Lemma closed_paramb_sound d p : closed_paramb d p = true -> closed_param d p.
Proof. unfold closed_paramb, closed_param. intros H. apply andb_prop in H as [H1 H2]. split; [|exact H2]. intros x E. rewrite E in H1. exact H1. Qed.
Lemma closed_responseb_sound d r : closed_responseb d r = true -> closed_response d r.
Proof.
  unfold closed_responseb, closed_response. intros H. apply andb_prop in H as [H1 H2]. split.
  - intros x E. rewrite E in H1. exact H1.
  - intros n h Hin. rewrite forallb_forall in H2. apply (H2 (n, h) Hin).
Qed.
Lemma closed_operationb_sound d o : closed_operationb d o = true -> closed_operation d o.
Proof.
  unfold closed_operationb, closed_operation. intros H. apply andb_prop in H as [H1 H2]. rewrite forallb_forall in H1, H2. split.
  - intros p Hp. apply closed_paramb_sound, H1, Hp.
  - intros c r Hin. apply closed_responseb_sound. apply (H2 (c, r) Hin).
Qed.
Lemma closed_swaggerb_sound a : closed_swaggerb a = true -> closed_swagger a.
Proof.
  unfold closed_swaggerb, closed_swagger. intros H. apply andb_prop in H as [H1 H2]. rewrite forallb_forall in H1, H2. split.
  - intros n sc Hin. apply (H1 (n, sc) Hin).
  - intros k pit op Hin. specialize (H2 _ Hin). cbn [fst snd] in H2. apply andb_prop in H2 as [A B].
    split; [|apply closed_operationb_sound; exact B]. intros p Hp. rewrite forallb_forall in A. apply closed_paramb_sound, A, Hp.
Qed.

Theorem analyse_total f a b : closed_swaggerb a = true -> closed_swaggerb b = true -> analyse f a b <> Panic.
Proof. intros A B. apply analyse_np; apply closed_swaggerb_sound; assumption. Qed.

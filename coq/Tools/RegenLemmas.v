(* Tools/RegenLemmas.v — proofs about Tools/Regen.v *)
From GS Require Import Base.Str Tools.Regen.

Lemma lookup_remove_same p f : lookup p (remove p f) = None.
Proof.
  induction f as [|[q c] r IH]; cbn; [reflexivity|].
  destruct (N.eqb_spec p q) as [->|E]; [exact IH|]. cbn. apply N.eqb_neq in E. now rewrite E.
Qed.

Lemma lookup_remove_other p q f : p <> q -> lookup p (remove q f) = lookup p f.
Proof.
  intro H. induction f as [|[r c] f IH]; cbn; [reflexivity|].
  destruct (N.eqb_spec q r) as [->|E].
  - apply N.eqb_neq in H. now rewrite H.
  - cbn. destruct (N.eqb p r); [reflexivity | exact IH].
Qed.

Lemma lookup_set_same p c f : lookup p (set p c f) = Some c.
Proof. unfold set. cbn. now rewrite N.eqb_refl. Qed.

Lemma lookup_set_other p q c f : p <> q -> lookup p (set q c f) = lookup p f.
Proof.
  intro H. unfold set. cbn. apply N.eqb_neq in H as H'. rewrite H'. now apply lookup_remove_other.
Qed.

(* a single write touches only its own path *)
Lemma write_other f w p : p <> w_path w -> lookup p (write f w) = lookup p f.
Proof.
  intro H. unfold write. destruct (w_skip w), (lookup (w_path w) f); try reflexivity; now apply lookup_set_other.
Qed.

(* files that are not targets of the run are untouched *)
Lemma gen_foreign plan : forall f p, ~ In p (paths plan) -> lookup p (gen plan f) = lookup p f.
Proof.
  unfold gen. induction plan as [|w plan IH]; intros f p H; [reflexivity|].
  cbn [fold_left]. rewrite IH by (intro I; apply H; now right).
  apply write_other. intro E. apply H. left. now symmetry.
Qed.

(* a skip_exists file that exists is never rewritten by a run whose other targets are elsewhere *)
Lemma write_skip_kept f w c : w_skip w = true -> lookup (w_path w) f = Some c -> write f w = f.
Proof. intros Hs Hl. unfold write. now rewrite Hs, Hl. Qed.

Lemma gen_skip_kept plan : forall f p c,
  lookup p f = Some c ->
  (forall w, In w plan -> w_path w = p -> w_skip w = true) ->
  lookup p (gen plan f) = Some c.
Proof.
  unfold gen. induction plan as [|w plan IH]; intros f p c Hl Hs; [exact Hl|].
  cbn [fold_left]. apply IH.
  - destruct (N.eq_dec (w_path w) p) as [E|E].
    + rewrite write_skip_kept with (c := c); [exact Hl | apply Hs; [now left | exact E] | now rewrite E].
    + rewrite write_other by congruence. exact Hl.
  - intros w' Hin. apply Hs. now right.
Qed.

(* convergence: a target written without skip_exists holds exactly the rendering, whatever was there before,
   provided no two templates of the run share the path (C08's no-overwrite condition) *)
Lemma gen_converges plan : forall f w,
  NoDup (paths plan) -> In w plan -> w_skip w = false ->
  lookup (w_path w) (gen plan f) = Some (w_content w).
Proof.
  unfold gen. induction plan as [|x plan IH]; intros f w ND Hin Hs; [contradiction|].
  cbn [fold_left]. inversion ND as [|? ? Hn ND']; subst. destruct Hin as [->|Hin].
  - assert (G := gen_foreign plan (write f w) (w_path w) Hn). unfold gen in G. rewrite G.
    unfold write. rewrite Hs. apply lookup_set_same.
  - now apply IH.
Qed.

(* a skip_exists target that did not exist is created with the rendering *)
Lemma gen_creates plan : forall f w,
  NoDup (paths plan) -> In w plan -> lookup (w_path w) f = None ->
  lookup (w_path w) (gen plan f) = Some (w_content w).
Proof.
  unfold gen. induction plan as [|x plan IH]; intros f w ND Hin Hl; [contradiction|].
  cbn [fold_left]. inversion ND as [|? ? Hn ND']; subst. destruct Hin as [->|Hin].
  - assert (G := gen_foreign plan (write f w) (w_path w) Hn). unfold gen in G. rewrite G.
    unfold write. rewrite Hl. destruct (w_skip w); apply lookup_set_same.
  - apply IH; [assumption | assumption|].
    rewrite write_other; [exact Hl|]. intro E. apply Hn. rewrite <- E. unfold paths. now apply in_map.
Qed.

(* the same statement as equality with a fresh generation into an empty directory *)
Lemma gen_equals_fresh plan f w :
  NoDup (paths plan) -> In w plan -> w_skip w = false ->
  lookup (w_path w) (gen plan f) = lookup (w_path w) (gen plan []).
Proof. intros ND Hin Hs. now rewrite !gen_converges. Qed.

(* histories: a path that no run of the history targets and the user does not touch keeps its content *)
Definition step_touches (p : path) (x : step) : Prop :=
  match x with
  | SGen plan => In p (paths plan)
  | SUser q _ => p = q
  | SDel q => p = q
  end.

Lemma run_untouched h : forall f p, (forall x, In x h -> ~ step_touches p x) -> lookup p (run h f) = lookup p f.
Proof.
  unfold run. induction h as [|x h IH]; intros f p H; [reflexivity|].
  cbn [fold_left]. rewrite IH by (intros y Hy; apply H; now right).
  specialize (H x (or_introl eq_refl)). destruct x as [plan|q c|q]; cbn [do_step step_touches] in *.
  - now apply gen_foreign.
  - now apply lookup_set_other.
  - now apply lookup_remove_other.
Qed.

(* histories: what the user wrote into a skip_exists file survives every later run that keeps the directive *)
Definition keeps_skip (p : path) (x : step) : Prop :=
  match x with
  | SGen plan => forall w, In w plan -> w_path w = p -> w_skip w = true
  | SUser q _ => p <> q
  | SDel q => p <> q
  end.

Lemma run_user_file_kept h : forall f p c,
  lookup p f = Some c -> (forall x, In x h -> keeps_skip p x) -> lookup p (run h f) = Some c.
Proof.
  unfold run. induction h as [|x h IH]; intros f p c Hl H; [exact Hl|].
  cbn [fold_left]. apply IH; [|intros y Hy; apply H; now right].
  specialize (H x (or_introl eq_refl)). destruct x as [plan|q c'|q]; cbn [do_step keeps_skip] in *.
  - now apply gen_skip_kept.
  - now rewrite lookup_set_other.
  - now rewrite lookup_remove_other.
Qed.

(* Tools/DiffExt.v — model of the vendor-extension pass of `swagger diff` (spec_analyser.go: analyseExtensions,
   analyzeInfoExtensions, analyzeTagExtensions, analyzeSecurityDefinitionExtensions, analyzeOperationExtensions,
   checkParamExtensions, analyzeSchemaExtensions, checkAdded/Changed/DeletedExtensions).
   The extensions of a document are kept in a view of their own (xdoc), beside the swagger record of DiffSpec.v, so
   that the records the other proofs are about stay as they are: the harness prints both views of the same document.
   Go maps are association lists with distinct keys; loops over maps run in list order (the harness compares
   multisets).  Definitions only. *)
From GS Require Import Base.Str Gen.GenDiffTables Tools.DiffTypes Tools.DiffSpec Tools.DiffModel.

Definition exts := list (str * dval).     (* extension key -> value (compared with reflect.DeepEqual) *)

Record xresp := {
  xr_headers : list (str * exts);          (* header name -> its extensions *)
  xr_body : list (schema * exts) }.        (* the response schema, then its items, then their items ...; [] = no schema *)
Record xop := {
  xo_ext : exts; xo_resp_ext : exts;       (* operation, its responses object *)
  xo_params : list (param * exts);
  xo_resps : list (Z * xresp) }.           (* status-code responses only: the default response is not visited *)
Record xitem := { xi_ext : exts; xi_params : list (param * exts); xi_ops : list (str * xop) }.
Record xdoc := {
  xd_ext : exts; xd_info : exts; xd_contact : option exts; xd_license : option exts;
  xd_tags : list (str * exts); xd_secdefs : list (str * exts); xd_paths : list (str * xitem) }.

(* ---------- checkAddedExtensions / checkChangedExtensions / checkDeletedExtensions ---------- *)
Definition ext_field (prefix key : str) : str := if is_empty prefix then key else prefix ++ s "." ++ key.
Definition ext_diff (l : loc) (prefix key : str) (c : code) : sdiff := mk_diff (loc_add l (leaf (ext_field prefix key))) c [].

Definition check_added (e1 e2 : exts) (l : loc) (prefix : str) : list sdiff :=
  flat_map (fun kv => if has_key (fst kv) e1 then [] else [ext_diff l prefix (fst kv) AddedExtension]) e2.
Definition check_changed (e1 e2 : exts) (l : loc) (prefix : str) : list sdiff :=
  flat_map (fun kv => match assoc (fst kv) e1 with
                      | Some v1 => if dval_eqb v1 (snd kv) then [] else [ext_diff l prefix (fst kv) ChangedExtensionValue]
                      | None => []
                      end) e2.
Definition check_deleted (e1 e2 : exts) (l : loc) (prefix : str) : list sdiff :=
  flat_map (fun kv => if has_key (fst kv) e2 then [] else [ext_diff l prefix (fst kv) DeletedExtension]) e1.

Definition node_loc (f : str) : loc := {| l_url := []; l_method := []; l_response := 0; l_node := Some (leaf f) |}.

(* ---------- root, info, tags, security definitions ---------- *)
Definition ext_three (e1 e2 : exts) (l : loc) : list sdiff :=
  check_added e1 e2 l [] ++ check_deleted e1 e2 l [] ++ check_changed e1 e2 l [].

Definition ext_info (a b : xdoc) : list sdiff :=
  ext_three (xd_info a) (xd_info b) (node_loc (s "Spec Info")) ++
  match xd_contact a, xd_contact b with Some e1, Some e2 => ext_three e1 e2 (node_loc (s "Spec Info.Contact")) | _, _ => [] end ++
  match xd_license a, xd_license b with Some e1, Some e2 => ext_three e1 e2 (node_loc (s "Spec Info.License")) | _, _ => [] end.

Definition ext_tags (a b : xdoc) : list sdiff :=
  let l := node_loc (s "Spec Tags") in
  flat_map (fun t2 => flat_map (fun t1 => if str_eqb (fst t2) (fst t1)
                                          then check_added (snd t1) (snd t2) l [] ++ check_changed (snd t1) (snd t2) l [] else [])
                               (xd_tags a)) (xd_tags b) ++
  flat_map (fun t1 => flat_map (fun t2 => if str_eqb (fst t1) (fst t2) then check_deleted (snd t1) (snd t2) l [] else [])
                               (xd_tags b)) (xd_tags a).

Definition ext_secdefs (a b : xdoc) : list sdiff :=
  let l := node_loc (s "Security Definitions") in
  flat_map (fun kv1 => match assoc (fst kv1) (xd_secdefs b) with
                       | Some e2 => check_added (snd kv1) e2 l [] ++ check_changed (snd kv1) e2 l []
                       | None => []
                       end) (xd_secdefs a) ++
  flat_map (fun kv2 => match assoc (fst kv2) (xd_secdefs a) with
                       | Some e1 => check_deleted e1 (snd kv2) l []
                       | None => []
                       end) (xd_secdefs b).

(* ---------- operations ---------- *)
Definition xum_t := list ((str * str) * (xitem * xop)).
Definition xurl_methods (x : xdoc) : xum_t :=
  flat_map (fun up => map (fun mo => ((fst up, fst mo), (snd up, snd mo))) (xi_ops (snd up))) (xd_paths x).
Fixpoint find_xum (k : str * str) (l : xum_t) : option (xitem * xop) :=
  match l with
  | [] => None
  | (k', v) :: r => if str_eqb (fst k) (fst k') && str_eqb (snd k) (snd k') then Some v else find_xum k r
  end.

(* getParams on parameters that carry their extensions *)
Definition get_xparams (pp op : list (param * exts)) (location : str) : list (str * (param * exts)) :=
  let add acc ps := fold_left (fun a pe => if str_eqb (p_in (fst pe)) location then set_assoc (p_name (fst pe)) pe a else a) ps acc in
  add (add [] pp) op.

Definition param_loc (k : str * str) (location : str) : loc :=
  {| l_url := fst k; l_method := snd k; l_response := 0; l_node := Some (leaf (title_of location)) |}.

(* checkParamExtensions: the child node is typed by the parameter of the FIRST document in all three checks *)
Fixpoint pdel_loop (l : loc) (ps2 : list (str * (param * exts))) (l1 : list (str * (param * exts))) : res (list sdiff) :=
  match l1 with
  | [] => Ok []
  | (n, (p1, e1)) :: r =>
      do rest <- pdel_loop l ps2 r;
      match assoc n ps2 with
      | Some (_, e2) => do t <- type_of_simple (p_simple p1); Ok (check_deleted e1 e2 (loc_add l (node_of n t)) [] ++ rest)
      | None => Ok rest
      end
  end.

Fixpoint padd_loop (l : loc) (ps1 : list (str * (param * exts))) (l2 : list (str * (param * exts))) : res (list sdiff) :=
  match l2 with
  | [] => Ok []
  | (n, (_, e2)) :: r =>
      do rest <- padd_loop l ps1 r;
      match assoc n ps1 with
      | Some (p1, e1) =>
          do t <- type_of_simple (p_simple p1);
          Ok (check_added e1 e2 (loc_add l (node_of n t)) [] ++ check_changed e1 e2 (loc_add l (node_of n t)) [] ++ rest)
      | None => Ok rest
      end
  end.

Definition param_ext_at (k : str * str) (location : str) (ps1 ps2 : list (str * (param * exts))) : res (list sdiff) :=
  do del <- pdel_loop (param_loc k location) ps2 ps1;
  do addchg <- padd_loop (param_loc k location) ps1 ps2;
  Ok (del ++ addchg).

Fixpoint param_ext_locs (k : str * str) (it1 : xitem) (op1 : xop) (it2 : xitem) (op2 : xop) (ls : list str) : res (list sdiff) :=
  match ls with
  | [] => Ok []
  | location :: r =>
      do here <- param_ext_at k location (get_xparams (xi_params it1) (xo_params op1) location)
                              (get_xparams (xi_params it2) (xo_params op2) location);
      do rest <- param_ext_locs k it1 op1 it2 op2 r;
      Ok (here ++ rest)
  end.
Definition param_ext (k : str * str) (it1 : xitem) (op1 : xop) (it2 : xitem) (op2 : xop) : res (list sdiff) :=
  param_ext_locs k it1 op1 it2 op2 param_locations.

Definition headers_loc (k : str * str) : loc :=
  {| l_url := fst k; l_method := snd k; l_response := 0; l_node := Some (leaf (s "Headers")) |}.

(* the headers of the status-code responses of the first operation that the second one still has *)
Definition header_ext (k : str * str) (op1 op2 : xop) (deleted : bool) : list sdiff :=
  flat_map (fun cr => flat_map (fun he =>
      match assocZ (fst cr) (xo_resps op2) with
      | Some r2 => match assoc (fst he) (xr_headers r2) with
                   | Some e2 => if deleted then check_deleted (snd he) e2 (headers_loc k) (fst he)
                                else check_added (snd he) e2 (headers_loc k) (fst he) ++ check_changed (snd he) e2 (headers_loc k) (fst he)
                   | None => []
                   end
      | None => []
      end) (xr_headers (snd cr))) (xo_resps op1).

(* analyzeSchemaExtensions: the response schema and, as long as both sides have items, their items *)
Fixpoint schema_ext (k : str * str) (code : Z) (c1 c2 : list (schema * exts)) : res (list sdiff) :=
  match c1, c2 with
  | (_, e1) :: r1, (x2, e2) :: r2 =>
      do t <- type_of_props x2;
      let l := {| l_url := fst k; l_method := snd k; l_response := code; l_node := Some (node_of (s "Body") t) |} in
      do rest <- schema_ext k code r1 r2;
      Ok (check_added e1 e2 l [] ++ check_changed e1 e2 l [] ++ check_deleted e1 e2 l [] ++ rest)
  | _, _ => Ok []
  end.

Fixpoint body_loop (k : str * str) (resps2 : list (Z * xresp)) (rs : list (Z * xresp)) : res (list sdiff) :=
  match rs with
  | [] => Ok []
  | (c, r1) :: r =>
      do here <- schema_ext k c (xr_body r1) (match assocZ c resps2 with Some r2 => xr_body r2 | None => [] end);
      do rest <- body_loop k resps2 r;
      Ok (here ++ rest)
  end.
Definition body_ext (k : str * str) (op1 op2 : xop) : res (list sdiff) := body_loop k (xo_resps op2) (xo_resps op1).

Definition path_loc (url : str) : loc := {| l_url := url; l_method := []; l_response := 0; l_node := None |}.

(* first loop of analyzeOperationExtensions (added / changed), over the operations of the second document *)
Fixpoint ops_added (um1 : xum_t) (es : xum_t) (seen : list str) : res (list sdiff) :=
  match es with
  | [] => Ok []
  | (k, (it2, op2)) :: r =>
      match find_xum k um1 with
      | None => ops_added um1 r seen
      | Some (it1, op1) =>
          let pm := um_loc k in
          let pathd := if mem (fst k) seen then []
                       else check_added (xi_ext it1) (xi_ext it2) (path_loc (fst k)) [] ++ check_changed (xi_ext it1) (xi_ext it2) (path_loc (fst k)) [] in
          do pd <- param_ext k it1 op1 it2 op2;
          do bd <- body_ext k op1 op2;
          do rest <- ops_added um1 r (fst k :: seen);
          Ok (pathd ++
              check_added (xo_resp_ext op1) (xo_resp_ext op2) pm (s "Responses") ++ check_changed (xo_resp_ext op1) (xo_resp_ext op2) pm (s "Responses") ++
              check_added (xo_ext op1) (xo_ext op2) pm [] ++ check_changed (xo_ext op1) (xo_ext op2) pm [] ++
              pd ++ header_ext k op1 op2 false ++ bd ++ rest)
      end
  end.

(* second loop (deleted), over the operations of the first document *)
Fixpoint ops_deleted (um2 : xum_t) (es : xum_t) (seen : list str) : list sdiff :=
  match es with
  | [] => []
  | (k, (it1, op1)) :: r =>
      match find_xum k um2 with
      | None => ops_deleted um2 r seen
      | Some (it2, op2) =>
          let pm := um_loc k in
          (if mem (fst k) seen then [] else check_deleted (xi_ext it1) (xi_ext it2) (path_loc (fst k)) []) ++
          check_deleted (xo_resp_ext op1) (xo_resp_ext op2) pm (s "Responses") ++
          check_deleted (xo_ext op1) (xo_ext op2) pm [] ++
          header_ext k op1 op2 true ++ ops_deleted um2 r (fst k :: seen)
      end
  end.

(* analyseExtensions *)
Definition analyse_ext (a b : xdoc) : res (list sdiff) :=
  do added <- ops_added (xurl_methods a) (xurl_methods b) [];
  Ok (ext_three (xd_ext a) (xd_ext b) (node_loc (s "Spec")) ++ ext_info a b ++ ext_tags a b ++ ext_secdefs a b ++
      added ++ ops_deleted (xurl_methods b) (xurl_methods a) []).

(* SpecAnalyser.Analyse, with the extension pass *)
Definition analyse_all (fuel : nat) (a b : swagger) (xa xb : xdoc) : res (list sdiff) :=
  do ds <- analyse fuel a b;
  do xs <- analyse_ext xa xb;
  Ok (ds ++ xs).

(* Tools/DiffModelLemmas.v — proofs about the diff model (Tools/DiffModel.v). *)
From Coq Require Import Permutation.
From GS Require Import Base.Str Gen.GenDiffTables Tools.DiffTypes Tools.DiffSpec Tools.DiffModel Tools.DiffReportLemmas.

(* ------------------------------------------------------------------ *)
(* Reflexivity: comparing a thing with itself yields nothing (C12)     *)
(* ------------------------------------------------------------------ *)

Lemma filter_not_mem_self (l : list str) : filter (fun x => negb (mem x l)) l = [].
Proof.
  apply filter_none. intros x Hx. apply negb_false_iff. now apply mem_In.
Qed.

Lemma diffs_to_refl_some l : diffs_to (Some l) (Some l) = ([], []).
Proof. unfold diffs_to. now rewrite filter_not_mem_self. Qed.

Lemma diffs_to_refl o : diffs_to o o = ([], []).
Proof. destruct o as [l|]; [apply diffs_to_refl_some | reflexivity]. Qed.

Lemma compare_int_values_refl n v gt lt : compare_int_values n v v gt lt = [].
Proof. destruct v as [a|]; cbn; [|reflexivity]. now rewrite Z.ltb_irrefl. Qed.

Lemma compare_float_values_refl n v gt lt : compare_float_values n v v gt lt = [].
Proof. destruct v as [a|]; cbn; [|reflexivity]. now rewrite Z.ltb_irrefl. Qed.

Lemma compare_enums_refl l : compare_enums l l = [].
Proof. unfold compare_enums. now rewrite diffs_to_refl_some. Qed.

Lemma check_required_refl r : check_required r r = [].
Proof. unfold check_required. now rewrite Bool.eqb_reflx. Qed.

Lemma check_string_refl x : check_string x x = [].
Proof.
  unfold check_string. destruct (str_eqb (hd_type (sc_typ x)) (s "string")); cbn [andb]; [|reflexivity].
  rewrite !compare_int_values_refl, str_eqb_refl, compare_enums_refl. now destruct (nonempty _).
Qed.

Lemma check_numeric_refl x : check_numeric x x = [].
Proof.
  unfold check_numeric. destruct (wideness (hd_type (sc_typ x))); [|reflexivity].
  destruct (v_xmax (sc_vals x)), (v_xmin (sc_vals x)); cbn; now rewrite !compare_float_values_refl.
Qed.

Lemma check_ref_change_refl tos x : check_ref_change tos x x = Ok [].
Proof.
  unfold check_ref_change. destruct (is_ref x); cbn; [now rewrite str_eqb_refl | reflexivity].
Qed.

Lemma compare_props_refl x : compare_props x x = Ok [].
Proof.
  unfold compare_props. rewrite Bool.eqb_reflx. cbn [negb].
  rewrite !compare_int_values_refl. cbn [app]. destruct (is_array_type (sc_typ x)); cbn [nonempty];
    rewrite check_ref_change_refl; cbn [bind nonempty];
    rewrite !str_eqb_refl; cbn [negb orb app]; rewrite check_string_refl, check_numeric_refl; cbn [nonempty];
    now destruct (is_primitive_type (sc_typ x)).
Qed.

Lemma compare_description_refl l d : compare_description l d d = [].
Proof. unfold compare_description. now rewrite str_eqb_refl. Qed.

Fixpoint dval_eqb_refl (d : dval) : dval_eqb d d = true.
Proof.
  destruct d as [|x|z|b|l]; cbn; try reflexivity.
  - apply str_eqb_refl.
  - apply Z.eqb_refl.
  - apply Bool.eqb_reflx.
  - induction l as [|y r IH]; [reflexivity|]. now rewrite dval_eqb_refl, IH.
Qed.

(* arrays carry items (what Swagger 2.0 validity demands) *)
Fixpoint wf_simple (x : simple) : bool :=
  match x with
  | Simple typ format _ _ _ _ _ items =>
      match items with
      | Some it => wf_simple it
      | None => negb (str_eqb typ (s "array")) && negb (str_eqb (prim_type_string typ format) (s "array"))
      end
  end.


Fixpoint type_of_simple_ok (x : simple) : wf_simple x = true -> exists r, type_of_simple x = Ok r.
Proof.
  destruct x as [typ format c n d e v [it|]]; cbn; intro H.
  - destruct (type_of_simple_ok it H) as [r Hr]. rewrite Hr. cbn.
    destruct (str_eqb _ _); eexists; reflexivity.
  - apply andb_true_iff in H as [_ H]. apply negb_true_iff in H. rewrite H. eexists; reflexivity.
Qed.

Fixpoint compare_simple_refl (x : simple) : forall l, wf_simple x = true -> compare_simple l x x = Ok [].
Proof.
  destruct x as [typ format c n d e v items]; intros l H.
  destruct (type_of_simple_ok _ H) as [r Hr].
  cbn [compare_simple]. rewrite Hr. cbn [bind].
  cbn [si_nullable si_cfmt si_default si_example si_typ si_items].
  rewrite str_eqb_refl, !dval_eqb_refl.
  assert (Hn : (if n && negb n then add_diffs l [td_ft ChangedOptionalToRequired (format_type_string r) (format_type_string r)]
                else if negb n && n then add_diffs l [td_ft ChangedRequiredToOptional (format_type_string r) (format_type_string r)] else []) = [])
    by now destruct n.
  rewrite Hn. cbn [app].
  destruct (str_eqb typ (s "array")) eqn:Ht.
  - destruct items as [it|].
    + cbn [wf_simple] in H. rewrite (compare_simple_refl it l H). reflexivity.
    + cbn [wf_simple] in H. apply andb_true_iff in H as [H1 _]. apply negb_true_iff in H1. congruence.
  - reflexivity.
Qed.

(* ------------------------------------------------------------------ *)
(* Direction (C14): value comparisons mirror under argument swap       *)
(* ------------------------------------------------------------------ *)

Definition mirror_code (c : code) : code :=
  match c with
  | DeletedProperty => AddedProperty | AddedProperty => DeletedProperty
  | AddedRequiredProperty => DeletedProperty
  | AddedDescripton => DeletedDescripton | DeletedDescripton => AddedDescripton
  | AddedTag => DeletedTag | DeletedTag => AddedTag
  | DeletedResponse => AddedResponse | AddedResponse => DeletedResponse
  | DeletedEndpoint => AddedEndpoint | AddedEndpoint => DeletedEndpoint
  | DeletedDeprecatedEndpoint => AddedEndpoint
  | WidenedType => NarrowedType | NarrowedType => WidenedType
  | AddedEnumValue => DeletedEnumValue | DeletedEnumValue => AddedEnumValue
  | ChangedOptionalToRequired => ChangedRequiredToOptional | ChangedRequiredToOptional => ChangedOptionalToRequired
  | AddedConsumesFormat => DeletedConsumesFormat | DeletedConsumesFormat => AddedConsumesFormat
  | AddedProducesFormat => DeletedProducesFormat | DeletedProducesFormat => AddedProducesFormat
  | AddedSchemes => DeletedSchemes | DeletedSchemes => AddedSchemes
  | AddedResponseHeader => DeletedResponseHeader | DeletedResponseHeader => AddedResponseHeader
  | DeletedConstraint => AddedConstraint | AddedConstraint => DeletedConstraint
  | DeletedDefinition => AddedDefinition | AddedDefinition => DeletedDefinition
  | AddedDefault => DeletedDefault | DeletedDefault => AddedDefault
  | AddedExample => DeletedExample | DeletedExample => AddedExample
  | DeletedExtension => AddedExtension | AddedExtension => DeletedExtension
  | AddedOptionalParam => DeletedOptionalParam | DeletedOptionalParam => AddedOptionalParam
  | AddedRequiredParam => DeletedRequiredParam | DeletedRequiredParam => AddedRequiredParam
  | c => c
  end.

Definition codes (l : list tdiff) : list code := map td_change l.

Lemma compare_int_values_mirror n a b gt lt :
  mirror_code gt = lt -> mirror_code lt = gt ->
  codes (compare_int_values n a b gt lt) = map mirror_code (codes (compare_int_values n b a gt lt)).
Proof.
  intros H1 H2. destruct a as [a|], b as [b|]; cbn; try reflexivity.
  destruct (Z.ltb_spec a b), (Z.ltb_spec b a); cbn; try lia; try reflexivity; congruence.
Qed.

Lemma compare_float_values_mirror n a b gt lt :
  mirror_code gt = lt -> mirror_code lt = gt ->
  codes (compare_float_values n a b gt lt) = map mirror_code (codes (compare_float_values n b a gt lt)).
Proof.
  intros H1 H2. destruct a as [a|], b as [b|]; cbn; try reflexivity.
  destruct (Z.ltb_spec a b), (Z.ltb_spec b a); cbn; try lia; try reflexivity; congruence.
Qed.

Lemma check_required_mirror r1 r2 :
  codes (check_required r1 r2) = map mirror_code (codes (check_required r2 r1)).
Proof. destruct r1, r2; reflexivity. Qed.

Lemma check_numeric_mirror x1 x2 :
  codes (check_numeric x1 x2) = map mirror_code (codes (check_numeric x2 x1)).
Proof.
  unfold check_numeric.
  destruct (wideness (hd_type (sc_typ x1))), (wideness (hd_type (sc_typ x2))); try reflexivity.
  destruct (v_xmax (sc_vals x1)), (v_xmax (sc_vals x2)), (v_xmin (sc_vals x1)), (v_xmin (sc_vals x2));
    cbn -[compare_float_values]; try reflexivity;
    unfold codes; rewrite !map_app; fold (codes (compare_float_values (s "Maximum") (v_max (sc_vals x1)) (v_max (sc_vals x2)) WidenedType NarrowedType));
    fold (codes (compare_float_values (s "Minimum") (v_min (sc_vals x1)) (v_min (sc_vals x2)) NarrowedType WidenedType));
    rewrite (compare_float_values_mirror (s "Maximum")), (compare_float_values_mirror (s "Minimum")) by reflexivity;
    reflexivity.
Qed.

(* the added and deleted sets swap *)
Lemma diffs_to_swap a b : diffs_to (Some a) (Some b) = (snd (diffs_to (Some b) (Some a)), fst (diffs_to (Some b) (Some a))).
Proof. reflexivity. Qed.

Lemma compare_enums_mirror l r :
  Permutation (codes (compare_enums l r)) (map mirror_code (codes (compare_enums r l))).
Proof.
  unfold compare_enums. rewrite (diffs_to_swap (map enumv_fmt l) (map enumv_fmt r)). cbn [fst snd].
  destruct (nonempty (fst (diffs_to (Some (map enumv_fmt r)) (Some (map enumv_fmt l))))),
           (nonempty (snd (diffs_to (Some (map enumv_fmt r)) (Some (map enumv_fmt l))))); cbn;
    try reflexivity. apply perm_swap.
Qed.

(* ------------------------------------------------------------------ *)
(* Soundness of the value comparisons for requests (C13)               *)
(* ------------------------------------------------------------------ *)

Definition breaking_req (c : code) : bool := compat_eqb (get_compat c false) Breaking.

(* an integer-valued request datum against numeric bounds *)
Definition sat_max (m : option Z) (excl : bool) (v : Z) : bool :=
  match m with None => true | Some b => if excl then Z.ltb v b else Z.leb v b end.
Definition sat_min (m : option Z) (excl : bool) (v : Z) : bool :=
  match m with None => true | Some b => if excl then Z.ltb b v else Z.leb b v end.
Definition sat_numeric (x : vals) (v : Z) : bool :=
  sat_max (v_max x) (v_xmax x) v && sat_min (v_min x) (v_xmin x) v.

(* a length (string length, item count) against a min/max pair *)
Definition sat_range (lo hi : option Z) (n : Z) : bool :=
  match lo with None => true | Some a => Z.leb a n end && match hi with None => true | Some b => Z.leb n b end.

Lemma existsb_breaking_app l1 l2 :
  existsb (fun t => breaking_req (td_change t)) (l1 ++ l2) =
  existsb (fun t => breaking_req (td_change t)) l1 || existsb (fun t => breaking_req (td_change t)) l2.
Proof. apply existsb_app. Qed.

(* narrowing an upper bound (maxLength, maxItems: gt = Widened, lt = Narrowed) is reported Breaking *)
Lemma compare_int_upper_sound n hi1 hi2 v :
  match hi1 with None => true | Some b => Z.leb v b end = true ->
  match hi2 with None => true | Some b => Z.leb v b end = false ->
  existsb (fun t => breaking_req (td_change t)) (compare_int_values n hi1 hi2 WidenedType NarrowedType) = true.
Proof.
  destruct hi1 as [a|], hi2 as [b|]; cbn; intros H1 H2; try discriminate.
  - apply Z.leb_le in H1. apply Z.leb_gt in H2.
    destruct (Z.ltb_spec a b); [lia|]. destruct (Z.ltb_spec b a); [reflexivity | lia].
  - reflexivity.
Qed.

(* narrowing a lower bound (minLength, minItems: gt = Narrowed, lt = Widened) is reported Breaking *)
Lemma compare_int_lower_sound n lo1 lo2 v :
  match lo1 with None => true | Some a => Z.leb a v end = true ->
  match lo2 with None => true | Some a => Z.leb a v end = false ->
  existsb (fun t => breaking_req (td_change t)) (compare_int_values n lo1 lo2 NarrowedType WidenedType) = true.
Proof.
  destruct lo1 as [a|], lo2 as [b|]; cbn; intros H1 H2; try discriminate.
  - apply Z.leb_le in H1. apply Z.leb_gt in H2.
    destruct (Z.ltb_spec a b); [reflexivity | lia].
  - reflexivity.
Qed.

Lemma compare_range_sound nlo nhi lo1 hi1 lo2 hi2 v :
  sat_range lo1 hi1 v = true -> sat_range lo2 hi2 v = false ->
  existsb (fun t => breaking_req (td_change t))
    (compare_int_values nlo lo1 lo2 NarrowedType WidenedType ++ compare_int_values nhi hi1 hi2 WidenedType NarrowedType) = true.
Proof.
  unfold sat_range. intros H1 H2. apply andb_true_iff in H1 as [Ha Hb].
  rewrite existsb_breaking_app. apply orb_true_iff.
  apply andb_false_iff in H2 as [H2|H2].
  - left. eapply compare_int_lower_sound; eassumption.
  - right. eapply compare_int_upper_sound; eassumption.
Qed.

(* numeric bounds with equal exclusivity flags: a value accepted before and rejected after yields a Breaking entry *)
Lemma compare_numeric_sound x1 x2 v :
  v_xmax x1 = v_xmax x2 -> v_xmin x1 = v_xmin x2 ->
  sat_numeric x1 v = true -> sat_numeric x2 v = false ->
  existsb (fun t => breaking_req (td_change t))
    (compare_float_values (s "Maximum") (v_max x1) (v_max x2) WidenedType NarrowedType ++
     compare_float_values (s "Minimum") (v_min x1) (v_min x2) NarrowedType WidenedType) = true.
Proof.
  unfold sat_numeric, sat_max, sat_min. intros E1 E2 H1 H2.
  rewrite <- E1, <- E2 in H2. apply andb_true_iff in H1 as [Ha Hb].
  rewrite existsb_breaking_app. apply orb_true_iff.
  apply andb_false_iff in H2 as [H2|H2].
  - left. destruct (v_max x1) as [a|], (v_max x2) as [b|]; cbn; try discriminate; try reflexivity.
    destruct (v_xmax x1).
    + apply Z.ltb_lt in Ha. apply Z.ltb_ge in H2.
      destruct (Z.ltb_spec a b); [lia|]. destruct (Z.ltb_spec b a); [reflexivity | lia].
    + apply Z.leb_le in Ha. apply Z.leb_gt in H2.
      destruct (Z.ltb_spec a b); [lia|]. destruct (Z.ltb_spec b a); [reflexivity | lia].
  - right. destruct (v_min x1) as [a|], (v_min x2) as [b|]; cbn; try discriminate; try reflexivity.
    destruct (v_xmin x1).
    + apply Z.ltb_lt in Hb. apply Z.ltb_ge in H2.
      destruct (Z.ltb_spec a b); [reflexivity | lia].
    + apply Z.leb_le in Hb. apply Z.leb_gt in H2.
      destruct (Z.ltb_spec a b); [reflexivity | lia].
Qed.

(* adding exclusivity to a bound is reported Breaking *)
Lemma exclusive_added_sound x1 x2 :
  (v_xmax (sc_vals x1) = false /\ v_xmax (sc_vals x2) = true) \/ (v_xmin (sc_vals x1) = false /\ v_xmin (sc_vals x2) = true) ->
  wideness (hd_type (sc_typ x1)) <> None -> wideness (hd_type (sc_typ x2)) <> None ->
  existsb (fun t => breaking_req (td_change t)) (check_numeric x1 x2) = true.
Proof.
  intros H W1 W2. unfold check_numeric.
  destruct (wideness (hd_type (sc_typ x1))); [|contradiction]. destruct (wideness (hd_type (sc_typ x2))); [|contradiction].
  destruct H as [[A B]|[A B]]; rewrite A, B;
    destruct (v_xmax (sc_vals x1)), (v_xmax (sc_vals x2)), (v_xmin (sc_vals x1)), (v_xmin (sc_vals x2));
    try discriminate; reflexivity.
Qed.

(* deleting an enum value is reported Breaking when the old side had an enum *)
Lemma enum_deleted_sound (l r : list enumv) (e : enumv) :
  In (enumv_fmt e) (map enumv_fmt l) -> ~ In (enumv_fmt e) (map enumv_fmt r) ->
  existsb (fun t => breaking_req (td_change t)) (compare_enums l r) = true.
Proof.
  intros Hin Hnot. unfold compare_enums, diffs_to. cbn [fst snd].
  set (del := sort_str (dedup (filter (fun x => negb (mem x (map enumv_fmt r))) (map enumv_fmt l)))).
  assert (Hne : nonempty del = true).
  { assert (I : In (enumv_fmt e) (filter (fun x => negb (mem x (map enumv_fmt r))) (map enumv_fmt l))).
    { apply filter_In. split; [assumption|]. apply negb_true_iff. now apply mem_false. }
    assert (I2 : In (enumv_fmt e) (dedup (filter (fun x => negb (mem x (map enumv_fmt r))) (map enumv_fmt l)))).
    { revert I. generalize (filter (fun x => negb (mem x (map enumv_fmt r))) (map enumv_fmt l)).
      induction l0 as [|y l0 IH]; cbn; [tauto|]. intros [->|H].
      - destruct (mem (enumv_fmt e) l0) eqn:M; [apply IH; now apply mem_In | now left].
      - destruct (mem y l0); [now apply IH | right; now apply IH]. }
    assert (I3 : In (enumv_fmt e) del).
    { unfold del. eapply Permutation_in; [symmetry; apply sort_str_perm | exact I2]. }
    destruct del; [contradiction | reflexivity]. }
  rewrite Hne. rewrite existsb_breaking_app. apply orb_true_iff. right. reflexivity.
Qed.

(* ------------------------------------------------------------------ *)
(* Document-level reflexivity pieces (C12)                              *)
(* ------------------------------------------------------------------ *)
Lemma analyse_meta_prop_refl a c : analyse_meta_prop a a c = [].
Proof. unfold analyse_meta_prop. now rewrite str_eqb_refl. Qed.

Lemma analyse_metadata_refl a : analyse_metadata a a = [].
Proof.
  unfold analyse_metadata. rewrite !diffs_to_refl, !analyse_meta_prop_refl. reflexivity.
Qed.

Lemma find_um_In k v um : In (k, v) um -> exists v', find_um k um = Some v'.
Proof.
  induction um as [|[k' v'] um IH]; cbn; [tauto|]. intros [H|H].
  - injection H as -> ->. rewrite !str_eqb_refl. eexists; reflexivity.
  - destruct (str_eqb (fst k) (fst k') && str_eqb (snd k) (snd k')); [eexists; reflexivity | auto].
Qed.

Lemma flat_map_nil {A B} (f : A -> list B) l : (forall x, In x l -> f x = []) -> flat_map f l = [].
Proof.
  induction l as [|x l IH]; cbn; intro H; [reflexivity|].
  rewrite (H x (or_introl eq_refl)), IH; [reflexivity|]. intros y Hy. apply H. now right.
Qed.

Lemma analyse_endpoints_refl um : analyse_endpoints um um = [].
Proof.
  unfold analyse_endpoints. rewrite !flat_map_nil; [reflexivity| |].
  - intros [k v] H. destruct (find_um_In k v um H) as [v' Hv]. cbn. now rewrite Hv.
  - intros [k [pit op]] H. destruct (find_um_In k (pit, op) um H) as [v' Hv]. now rewrite Hv.
Qed.

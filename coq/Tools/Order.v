(* Tools/Order.v — loops over Go maps as folds over an arbitrary permutation of the entries: the patterns that make
   the result independent of the iteration order.  Definitions. *)
From GS Require Import Base.Str.

Inductive rpattern :=
| CollectThenSort            (* the body only appends to slices that are sorted afterwards *)
| CollectThenSortWithCalls
| CollectUnsorted
| CommutativeUpdate          (* the body only inserts into maps keyed by the loop key, sets flags, counts, deletes *)
| FirstMatch                 (* the body can leave the loop early *)
| UpdateWithCalls
| Other.

Record rsite := { rs_file : str; rs_func : str; rs_expr : str; rs_pattern : rpattern }.

Definition rpattern_idx (p : rpattern) : N :=
  match p with CollectThenSort => 0 | CollectThenSortWithCalls => 1 | CollectUnsorted => 2 | CommutativeUpdate => 3
             | FirstMatch => 4 | UpdateWithCalls => 5 | Other => 6 end.
Definition rpattern_eqb (a b : rpattern) : bool := N.eqb (rpattern_idx a) (rpattern_idx b).

Definition proven_pattern (p : rpattern) : bool :=
  match p with CollectThenSort | CommutativeUpdate => true | _ => false end.

Definition rsite_eqb (a b : rsite) : bool :=
  str_eqb (rs_file a) (rs_file b) && str_eqb (rs_func a) (rs_func b) && str_eqb (rs_expr a) (rs_expr b) &&
  rpattern_eqb (rs_pattern a) (rs_pattern b).

(* first match over a table *)
Definition first_match {A} (f : A -> bool) (g : A -> str) (l : list A) : option str := option_map g (find f l).

(* ---- the restricted regular expressions of generator/media.go, searched unanchored ---- *)
Inductive mpart := PLit (x : str) | PAny | PAlt (l : list str).
Definition mpattern := list mpart.

Fixpoint is_prefix (x t : str) : bool :=
  match x, t with
  | [], _ => true
  | a :: x', b :: t' => N.eqb a b && is_prefix x' t'
  | _ :: _, [] => false
  end.

Fixpoint any_suffix (f : str -> bool) (t : str) : bool :=
  f t || match t with [] => false | _ :: t' => any_suffix f t' end.

Fixpoint mmatch (p : mpattern) (t : str) : bool :=
  match p with
  | [] => true
  | PLit x :: r => is_prefix x t && mmatch r (skipn (length x) t)
  | PAlt l :: r => existsb (fun x => is_prefix x t && mmatch r (skipn (length x) t)) l
  | PAny :: r => any_suffix (mmatch r) t
  end.

Definition msearch (p : mpattern) (t : str) : bool := any_suffix (mmatch p) t.

Definition matching_names (tbl : list (mpattern * str)) (t : str) : list str :=
  dedup (map snd (filter (fun e => msearch (fst e) t) tbl)).

Definition unambiguous (tbl : list (mpattern * str)) (t : str) : bool :=
  Nat.leb (length (matching_names tbl t)) 1.

(* media types in common use (IANA registry excerpts + the ones go-swagger documents) *)
Definition media_catalogue : list str :=
  [s "application/json"; s "application/xml"; s "application/yaml"; s "application/x-yaml"; s "application/vnd.api+json";
   s "application/problem+json"; s "application/problem+xml"; s "application/json-patch+json"; s "application/merge-patch+json";
   s "application/hal+json"; s "application/ld+json"; s "application/atom+xml"; s "application/rss+xml"; s "application/soap+xml";
   s "application/xhtml+xml"; s "application/protobuf"; s "application/x-protobuf"; s "application/vnd.google.protobuf";
   s "application/x-thrift"; s "application/octet-stream"; s "application/pdf"; s "application/zip"; s "application/gzip";
   s "application/x-gzip"; s "application/x-tar"; s "application/tar"; s "application/x-www-form-urlencoded"; s "multipart/form-data";
   s "application/javascript"; s "text/plain"; s "text/html"; s "text/css"; s "text/csv"; s "text/tab-separated-values"; s "text/tsv";
   s "text/xml"; s "text/markdown"; s "text/javascript"; s "text/x-markdown"; s "image/png"; s "image/jpeg"; s "image/gif";
   s "image/svg+xml"; s "audio/mpeg"; s "audio/ogg"; s "application/x-ndjson"; s "application/io.goswagger.examples.todo-list.v1+json";
   s "application/x-raw-stream"; s "application/vnd.ms-excel"; s "application/msword"; s "application/x-capnproto"; s "video/mp4"].

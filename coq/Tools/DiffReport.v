(* Tools/DiffReport.v — model of FilterIgnores / Report* / exit status / JSON form of SpecDifference.
   Definitions only. *)
From GS Require Import Base.Str Base.Json Gen.GenDiffTables Tools.DiffTypes.

Definition contains (l : list sdiff) (d : sdiff) : bool := existsb (fun e => matches e d) l.

(* FilterIgnores: keeps order; addDiff recomputes compatibility of the kept entries *)
Definition filter_ignores (ds ignores : list sdiff) : list sdiff :=
  map add_diff (filter (fun d => negb (contains ignores d)) ds).

Definition breaking_count (ds : list sdiff) : nat :=
  length (filter (fun d => compat_eqb (d_compat d) Breaking) ds).
Definition warning_count (ds : list sdiff) : nat :=
  length (filter (fun d => compat_eqb (d_compat d) Warning) ds).

(* reportChanges: the sorted String()s of the entries with that compatibility *)
Definition report_changes (ds : list sdiff) (c : compat) : list str :=
  sort_str (map diff_string (filter (fun d => compat_eqb (d_compat d) c) ds)).

(* entry lines of the three kinds of report (headers and trailers dropped) *)
Definition report_compat_lines (ds : list sdiff) : list str :=
  if Nat.ltb 0 (breaking_count ds) then report_changes ds Breaking else [].

Definition report_text_lines (ds : list sdiff) : list str :=
  match ds with
  | [] => []
  | _ =>
      (if negb (Nat.eqb (length ds) (breaking_count ds))
       then report_changes ds NonBreaking ++
            (if Nat.ltb 0 (warning_count ds) then report_changes ds Warning else [])
       else []) ++ report_compat_lines ds
  end.

(* exit status of DiffCommand.Execute: true = non-zero (the command returns [warn]).
   ReportCompatibility returns an error exactly when the breaking count is positive;
   the JSON branch of ReportAllDiffs returns a nil third result whatever the diffs are. *)
Definition report_compat_fails (ds : list sdiff) : bool := Nat.ltb 0 (breaking_count ds).

Definition report_all_fails (fmt_json : bool) (ds : list sdiff) : bool :=
  if fmt_json then false
  else match ds with [] => false | _ => report_compat_fails ds end.

Definition execute_fails (fmt_json only_breaking : bool) (ds ignores : list sdiff) : bool :=
  let ds' := filter_ignores ds ignores in
  if negb fmt_json && only_breaking then report_compat_fails ds'
  else report_all_fails fmt_json ds'.

(* JSON form (struct tags of Node, DifferenceLocation, SpecDifference) *)
Fixpoint node_json (n : node) : json :=
  match n with
  | Node f t ar c =>
      JObj ((if is_empty f then [] else [(s "name", JStr f)]) ++
            (if is_empty t then [] else [(s "type", JStr t)]) ++
            (if ar then [(s "is_array", JBool true)] else []) ++
            (match c with Some ch => [(s "child", node_json ch)] | None => [] end))
  end.

Definition loc_json (l : loc) : json :=
  JObj ([(s "url", JStr (l_url l))] ++
        (if is_empty (l_method l) then [] else [(s "method", JStr (l_method l))]) ++
        (if Z.eqb (l_response l) 0 then [] else [(s "response", jint (l_response l))]) ++
        (match l_node l with Some n => [(s "node", node_json n)] | None => [] end)).

Definition code_json (c : code) : json := JStr (match code_str c with Some x => x | None => [] end).
Definition compat_json (c : compat) : json := JStr (match compat_str c with Some x => x | None => [] end).

Definition diff_json (d : sdiff) : json :=
  JObj ([(s "location", loc_json (d_loc d)); (s "code", code_json (d_code d));
         (s "compatibility", compat_json (d_compat d))] ++
        (if is_empty (d_info d) then [] else [(s "info", JStr (d_info d))])).

Definition diffs_json (ds : list sdiff) : json := JArr (map diff_json ds).

(* decoding (encoding/json into the same structs; init() inverts the string tables) *)
Definition decode_code (x : str) : option code :=
  find (fun c => match code_str c with Some y => str_eqb x y | None => false end) all_codes.
Definition decode_compat (x : str) : option compat :=
  find (fun c => match compat_str c with Some y => str_eqb x y | None => false end) all_compats.

Definition jstr_field (k : str) (j : json) : option str :=
  match jfield k j with
  | None => Some []
  | Some (JStr x) => Some x
  | Some JNull => Some []
  | Some _ => None
  end.

Fixpoint node_of_json (fuel : nat) (j : json) : option node :=
  match fuel with
  | O => None
  | S f =>
      match j with
      | JObj _ =>
          match jstr_field (s "name") j, jstr_field (s "type") j with
          | Some nm, Some ty =>
              let ar := match jfield (s "is_array") j with Some (JBool b) => Some b | None => Some false | Some JNull => Some false | _ => None end in
              let ch := match jfield (s "child") j with
                        | None | Some JNull => Some None
                        | Some c => match node_of_json f c with Some n => Some (Some n) | None => None end
                        end in
              match ar, ch with
              | Some a, Some c => Some (Node nm ty a c)
              | _, _ => None
              end
          | _, _ => None
          end
      | _ => None
      end
  end.

Definition opt_node_of_json (oj : option json) : option (option node) :=
  match oj with
  | None | Some JNull => Some None
  | Some c => match node_of_json (json_size c) c with Some x => Some (Some x) | None => None end
  end.

Definition loc_of_json (j : json) : option loc :=
  match j with
  | JObj _ =>
      match jstr_field (s "url") j, jstr_field (s "method") j with
      | Some u, Some m =>
          let r := match jfield (s "response") j with Some (JNum z 0) => Some z | None | Some JNull => Some 0%Z | _ => None end in
          let n := opt_node_of_json (jfield (s "node") j) in
          match r, n with
          | Some r', Some n' => Some {| l_url := u; l_method := m; l_response := r'; l_node := n' |}
          | _, _ => None
          end
      | _, _ => None
      end
  | _ => None
  end.

Definition diff_of_json (j : json) : option sdiff :=
  match jfield (s "location") j, jfield (s "code") j, jfield (s "compatibility") j, jstr_field (s "info") j with
  | Some lj, Some (JStr c), Some (JStr k), Some info =>
      match loc_of_json lj, decode_code c, decode_compat k with
      | Some l, Some c', Some k' => Some {| d_loc := l; d_code := c'; d_compat := k'; d_info := info |}
      | _, _, _ => None
      end
  | _, _, _, _ => None
  end.

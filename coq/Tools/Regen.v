(* Tools/Regen.v — model of how `swagger generate` writes into a target directory (GenOpts.write) over a history
   of runs and user actions.  Paths and contents are abstract identifiers.  Definitions only. *)
From GS Require Import Base.Str.

Definition path := N.
Definition content := N.
Definition fs := list (path * content).          (* association list, first match wins; absent = no file *)

Fixpoint lookup (p : path) (f : fs) : option content :=
  match f with
  | [] => None
  | (q, c) :: r => if N.eqb p q then Some c else lookup p r
  end.

Fixpoint remove (p : path) (f : fs) : fs :=
  match f with
  | [] => []
  | (q, c) :: r => if N.eqb p q then remove p r else (q, c) :: remove p r
  end.

Definition set (p : path) (c : content) (f : fs) : fs := (p, c) :: remove p f.

(* one template instance of a run: target path, rendered content, skip_exists directive *)
Record wr := { w_path : path; w_content : content; w_skip : bool }.

(* GenOpts.write: skip when the directive is set and the file exists, otherwise (over)write with the rendering *)
Definition write (f : fs) (w : wr) : fs :=
  match w_skip w, lookup (w_path w) f with
  | true, Some _ => f
  | _, _ => set (w_path w) (w_content w) f
  end.

Definition gen (plan : list wr) (f : fs) : fs := fold_left write plan f.

Inductive step :=
| SGen (plan : list wr)                 (* a generate run; [plan] is what it renders *)
| SUser (p : path) (c : content)        (* the user creates or edits a file *)
| SDel (p : path).                      (* the user removes a file *)

Definition do_step (f : fs) (x : step) : fs :=
  match x with
  | SGen plan => gen plan f
  | SUser p c => set p c f
  | SDel p => remove p f
  end.

Definition run (h : list step) (f : fs) : fs := fold_left do_step h f.

Definition paths (plan : list wr) : list path := map w_path plan.

(* --- evaluation harness --- *)
Definition same_fs (a b : fs) (ps : list path) : bool :=
  forallb (fun p => match lookup p a, lookup p b with
                    | Some x, Some y => N.eqb x y
                    | None, None => true
                    | _, _ => false
                    end) ps.

(* a case: filesystem before, the step, the observed filesystem after, the universe of paths to compare *)
Record rcase := { rg_before : fs; rg_step : step; rg_after : fs; rg_paths : list path }.

Definition judge_rg (c : rcase) : bool := same_fs (do_step (rg_before c) (rg_step c)) (rg_after c) (rg_paths c).

Fixpoint run_rg_from (i : nat) (cs : list rcase) : list nat :=
  match cs with
  | [] => []
  | c :: r => if judge_rg c then run_rg_from (S i) r else i :: run_rg_from (S i) r
  end.
Definition run_rg (cs : list rcase) := run_rg_from 0 cs.

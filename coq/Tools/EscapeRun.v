(* Tools/EscapeRun.v — evaluation harness for the text helpers (cases.v files import this). *)
From GS Require Import Base.Str Tools.Escape.

(* fn: 0 padComment, 1 blockComment, 2 escapeBackticks *)
Record tcase := { t_fn : nat; t_in : str; t_pad : str; t_out : str }.

Definition model_out (c : tcase) : str :=
  match t_fn c with
  | 0 => pad_comment (t_in c) (t_pad c)
  | 1 => block_comment (t_in c)
  | _ => escape_backticks (t_in c)
  end.

(* besides equality with the implementation, re-check on the observed output what the theorems promise *)
Definition judge_t (c : tcase) : list nat :=
  (if str_eqb (model_out c) (t_out c) then [] else [1]) ++
  match t_fn c with
  | 0 => if forallb starts_comment (lines (SLASH :: SLASH :: 32%N :: t_out c)) then [] else [2]
  | 1 => if has_close (t_out c) then [3] else []
  | _ => match eval_go_concat (BQ :: t_out c ++ [BQ]) with
         | Some v => if str_eqb v (remove_cr (t_in c)) then [] else [4]
         | None => [5]
         end
  end.

Fixpoint run_t_from (i : nat) (cs : list tcase) : list (nat * list nat) :=
  match cs with
  | [] => []
  | c :: r => match judge_t c with [] => run_t_from (S i) r | l => (i, l) :: run_t_from (S i) r end
  end.
Definition run_t (cs : list tcase) := run_t_from 0 cs.

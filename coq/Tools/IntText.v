(* Tools/IntText.v — what the generated client writes for an integer parameter (strconv.FormatInt: plain decimal text)
   is read back by the generated server (strconv.ParseInt as modelled by parse_int_go) as the same integer. *)
From Coq Require Import DecimalString DecimalZ DecimalPos DecimalN Decimal Lia.
From GS Require Import Base.Str Tools.Decimal Tools.GenServer.

Fixpoint uint_chars (d : uint) : str :=
  match d with
  | Nil => []
  | D0 l => 48%N :: uint_chars l | D1 l => 49%N :: uint_chars l | D2 l => 50%N :: uint_chars l | D3 l => 51%N :: uint_chars l
  | D4 l => 52%N :: uint_chars l | D5 l => 53%N :: uint_chars l | D6 l => 54%N :: uint_chars l | D7 l => 55%N :: uint_chars l
  | D8 l => 56%N :: uint_chars l | D9 l => 57%N :: uint_chars l
  end.

Lemma str_of_uint d : str_of_string (NilEmpty.string_of_uint d) = uint_chars d.
Proof. induction d; cbn; try reflexivity; rewrite IHd; reflexivity. Qed.

Lemma digits_acc d : forall acc, digits_val (uint_chars d) (Z.pos acc) = Some (Z.pos (Pos.of_uint_acc d acc)).
Proof.
  induction d; intros acc; cbn [uint_chars digits_val Pos.of_uint_acc]; try reflexivity.
  all: change (is_digit _) with true; cbv iota.
  all: match goal with |- digits_val _ ?a = Some (Z.pos (Pos.of_uint_acc _ ?b)) =>
         replace a with (Z.pos b) by (simpl (Z.of_N _); lia); apply IHd end.
Qed.

Lemma digits_uint d : digits_val (uint_chars d) 0 = Some (Z.of_N (Pos.of_uint d)).
Proof.
  induction d; cbn [uint_chars digits_val Pos.of_uint]; try reflexivity.
  all: change (is_digit _) with true; cbv iota.
  - replace (0 * 10 + Z.of_N (48 - 48))%Z with 0%Z by (simpl (Z.of_N _); lia). exact IHd.
  - change (0 * 10 + Z.of_N (49 - 48))%Z with (Z.pos 1). rewrite digits_acc. reflexivity.
  - change (0 * 10 + Z.of_N (50 - 48))%Z with (Z.pos 2). rewrite digits_acc. reflexivity.
  - change (0 * 10 + Z.of_N (51 - 48))%Z with (Z.pos 3). rewrite digits_acc. reflexivity.
  - change (0 * 10 + Z.of_N (52 - 48))%Z with (Z.pos 4). rewrite digits_acc. reflexivity.
  - change (0 * 10 + Z.of_N (53 - 48))%Z with (Z.pos 5). rewrite digits_acc. reflexivity.
  - change (0 * 10 + Z.of_N (54 - 48))%Z with (Z.pos 6). rewrite digits_acc. reflexivity.
  - change (0 * 10 + Z.of_N (55 - 48))%Z with (Z.pos 7). rewrite digits_acc. reflexivity.
  - change (0 * 10 + Z.of_N (56 - 48))%Z with (Z.pos 8). rewrite digits_acc. reflexivity.
  - change (0 * 10 + Z.of_N (57 - 48))%Z with (Z.pos 9). rewrite digits_acc. reflexivity.
Qed.

Lemma uint_chars_head d : d <> Nil -> exists c r, uint_chars d = c :: r /\ N.eqb c 45 = false /\ N.eqb c 43 = false.
Proof. destruct d; intros H; try contradiction; eexists; eexists; (split; [reflexivity | split; reflexivity]). Qed.

Lemma parse_int_go_uint d : d <> Nil -> parse_int_go (uint_chars d) = Some (Z.of_N (Pos.of_uint d)).
Proof.
  intros H. destruct d; try contradiction; unfold parse_int_go; cbn [uint_chars].
  - exact (digits_uint (D0 d)). - exact (digits_uint (D1 d)). - exact (digits_uint (D2 d)). - exact (digits_uint (D3 d)).
  - exact (digits_uint (D4 d)). - exact (digits_uint (D5 d)). - exact (digits_uint (D6 d)). - exact (digits_uint (D7 d)).
  - exact (digits_uint (D8 d)). - exact (digits_uint (D9 d)).
Qed.

Lemma nilzero_chars d : d <> Nil -> str_of_string (NilZero.string_of_uint d) = uint_chars d.
Proof. intros H. unfold NilZero.string_of_uint. destruct d; try contradiction; apply str_of_uint. Qed.

Theorem parse_int_go_dec_text z : parse_int_go (dec_text z) = Some z.
Proof.
  unfold dec_text. destruct z as [|p|p]; cbn [Z.to_int].
  - vm_compute. reflexivity.
  - cbn [NilZero.string_of_int]. pose proof (DecimalPos.Unsigned.to_uint_nonnil p) as NN.
    rewrite (nilzero_chars _ NN), (parse_int_go_uint _ NN), DecimalPos.Unsigned.of_to. reflexivity.
  - cbn [NilZero.string_of_int str_of_string]. pose proof (DecimalPos.Unsigned.to_uint_nonnil p) as NN.
    rewrite (nilzero_chars _ NN). change (N_of_ascii "-") with 45%N. unfold parse_int_go.
    destruct (uint_chars_head _ NN) as [c [r [Ec _]]]. rewrite Ec. rewrite <- Ec.
    rewrite digits_uint, DecimalPos.Unsigned.of_to. reflexivity.
Qed.

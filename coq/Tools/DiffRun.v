(* Tools/DiffRun.v — evaluation harness for the correspondence check (cases.v files import this).
   Definitions only. *)
From GS Require Import Base.Str Gen.GenDiffTables Tools.DiffTypes Tools.DiffSpec Tools.DiffModel Tools.DiffReport Tools.DiffExt.

Definition cidx (n : nat) : code := nth n all_codes NoChangeDetected.
Definition kidx (n : nat) : compat := nth n all_compats compat_zero.

Inductive observed := OPanic | ODiffs (l : list sdiff).

(* c_xa, c_xb: the vendor extensions of the two documents (Tools/DiffExt.v) *)
Record case := { c_a : swagger; c_b : swagger; c_obs : observed; c_xa : xdoc; c_xb : xdoc }.

(* fuel: generous; [Fuel] is reported as its own verdict, never silently *)
Definition model_fuel : nat := 64.

Fixpoint remove_first (d : sdiff) (l : list sdiff) : option (list sdiff) :=
  match l with
  | [] => None
  | e :: r => if matches e d then Some r else
              match remove_first d r with Some r' => Some (e :: r') | None => None end
  end.

Fixpoint multiset_eqb (a b : list sdiff) : bool :=
  match a with
  | [] => match b with [] => true | _ => false end
  | d :: r => match remove_first d b with Some b' => multiset_eqb r b' | None => false end
  end.

Inductive verdict := VAgree | VModelPanic | VImplPanic | VFuel | VDiffer.

Definition judge (c : case) : verdict :=
  match analyse_all model_fuel (c_a c) (c_b c) (c_xa c) (c_xb c), c_obs c with
  | Fuel, _ => VFuel
  | Panic, OPanic => VAgree
  | Panic, ODiffs _ => VModelPanic
  | Ok _, OPanic => VImplPanic
  | Ok m, ODiffs o => if multiset_eqb m o then VAgree else VDiffer
  end.

(* per-property projections of the observable, so that a check only looks at what its property is about *)
Inductive proj := PFull | PTotal | PBreaking | PCodes.

Definition proj_diffs (p : proj) (ds : list sdiff) : list sdiff :=
  match p with
  | PFull => ds
  | PTotal => match ds with [] => [] | d :: _ => [mk_diff (d_loc d) NoChangeDetected []] end   (* only: empty or not *)
  | PBreaking => filter (fun d => compat_eqb (d_compat d) Breaking) ds
  | PCodes => map (fun d => {| d_loc := d_loc d; d_code := d_code d; d_compat := compat_zero; d_info := [] |}) ds
  end.

Definition total_norm (ds : list sdiff) : list sdiff :=
  match ds with [] => [] | _ => [mk_diff {| l_url := []; l_method := []; l_response := 0; l_node := None |} NoChangeDetected []] end.

Definition judge_p (p : proj) (c : case) : verdict :=
  match analyse_all model_fuel (c_a c) (c_b c) (c_xa c) (c_xb c), c_obs c with
  | Fuel, _ => VFuel
  | Panic, OPanic => VAgree
  | Panic, ODiffs _ => VModelPanic
  | Ok _, OPanic => VImplPanic
  | Ok m, ODiffs o =>
      let same := match p with
                  | PTotal => multiset_eqb (total_norm m) (total_norm o)
                  | _ => multiset_eqb (proj_diffs p m) (proj_diffs p o)
                  end in
      if same then VAgree else VDiffer
  end.

Definition verdict_eqb (a b : verdict) : bool :=
  match a, b with
  | VAgree, VAgree | VModelPanic, VModelPanic | VImplPanic, VImplPanic | VFuel, VFuel | VDiffer, VDiffer => true
  | _, _ => false
  end.

Fixpoint run_from (i : nat) (cs : list case) : list (nat * verdict) :=
  match cs with
  | [] => []
  | c :: r => let v := judge c in
              if verdict_eqb v VAgree then run_from (S i) r else (i, v) :: run_from (S i) r
  end.
Definition run_cases (cs : list case) : list (nat * verdict) := run_from 0 cs.

Fixpoint run_from_p (p : proj) (i : nat) (cs : list case) : list (nat * verdict) :=
  match cs with
  | [] => []
  | c :: r => let v := judge_p p c in
              if verdict_eqb v VAgree then run_from_p p (S i) r else (i, v) :: run_from_p p (S i) r
  end.
Definition run_cases_p (p : proj) (cs : list case) : list (nat * verdict) := run_from_p p 0 cs.

(* readable output of the model for one case *)
Fixpoint string_of_str (x : str) : string :=
  match x with
  | [] => EmptyString
  | c :: r => String (ascii_of_N c) (string_of_str r)
  end.

Definition show_diff (d : sdiff) : string :=
  string_of_str (diff_string d ++ s " [" ++ match compat_str (d_compat d) with Some x => x | None => s "?" end ++ s "]").

Definition show_model (c : case) : list string :=
  match analyse_all model_fuel (c_a c) (c_b c) (c_xa c) (c_xb c) with
  | Ok m => map show_diff m
  | Panic => ["PANIC"%string]
  | Fuel => ["FUEL"%string]
  end.

(* C15 report correspondence: text-report entry lines, breaking-only lines, exit flags, for observed diffs and an ignore list *)
Record rcase := { rc_ds : list sdiff; rc_ig : list sdiff;
                  rc_text : list str; rc_breaking : list str; rc_njson : nat;
                  rc_exit_text : bool; rc_exit_break : bool; rc_exit_json : bool }.

Fixpoint strs_eqb (a b : list str) : bool :=
  match a, b with
  | [], [] => true
  | x :: r, y :: r' => str_eqb x y && strs_eqb r r'
  | _, _ => false
  end.

Definition judge_report (c : rcase) : list nat :=
  let ds := filter_ignores (rc_ds c) (rc_ig c) in
  (if strs_eqb (report_text_lines ds) (rc_text c) then [] else [1]) ++
  (if strs_eqb (report_compat_lines ds) (rc_breaking c) then [] else [2]) ++
  (if Nat.eqb (length ds) (rc_njson c) then [] else [3]) ++
  (if Bool.eqb (execute_fails false false (rc_ds c) (rc_ig c)) (rc_exit_text c) then [] else [4]) ++
  (if Bool.eqb (execute_fails false true (rc_ds c) (rc_ig c)) (rc_exit_break c) then [] else [5]) ++
  (if Bool.eqb (execute_fails true false (rc_ds c) (rc_ig c)) (rc_exit_json c) then [] else [6]).

Fixpoint run_reports_from (i : nat) (cs : list rcase) : list (nat * list nat) :=
  match cs with
  | [] => []
  | c :: r => match judge_report c with
              | [] => run_reports_from (S i) r
              | l => (i, l) :: run_reports_from (S i) r
              end
  end.
Definition run_reports (cs : list rcase) := run_reports_from 0 cs.

(* Tools/DiffParams.v — C12 / C13: which parameter declaration the diff compares.
   A parameter is identified by its name AND its location; a declaration of the operation replaces the path item's
   declaration of the same (name, location); declarations in other locations do not interfere. *)
From GS Require Import Base.Str Tools.DiffTypes Tools.DiffSpec Tools.DiffModel.

Lemma assoc_set_same {A} k (v : A) l : assoc k (set_assoc k v l) = Some v.
Proof.
  induction l as [|[k' v'] r IH]; cbn [set_assoc assoc]; [rewrite str_eqb_refl; reflexivity|].
  destruct (str_eqb k k') eqn:E; cbn [assoc]; [rewrite str_eqb_refl; reflexivity|]. rewrite E. exact IH.
Qed.

Lemma assoc_set_other {A} k k' (v : A) l : str_eqb k' k = false -> assoc k' (set_assoc k v l) = assoc k' l.
Proof.
  intro N. induction l as [|[k2 v2] r IH]; cbn [set_assoc assoc]; [rewrite N; reflexivity|].
  destruct (str_eqb k k2) eqn:E; cbn [assoc].
  - apply str_eqb_eq in E. subst k2. rewrite N. reflexivity.
  - rewrite IH. reflexivity.
Qed.

(* the last declaration of (name, location) in a parameter list *)
Definition declared (ps : list param) (n location : str) : option param :=
  fold_left (fun (acc : option param) (p : param) => if str_eqb (p_in p) location && str_eqb n (p_name p) then Some p else acc) ps None.

Lemma declared_from ps n location : forall acc,
  fold_left (fun (acc : option param) (p : param) => if str_eqb (p_in p) location && str_eqb n (p_name p) then Some p else acc) ps acc =
  match declared ps n location with Some p => Some p | None => acc end.
Proof.
  unfold declared. induction ps as [|q r IH]; intro acc; cbn [fold_left]; [reflexivity|].
  rewrite IH. symmetry. rewrite IH. symmetry.
  match goal with |- context [fold_left ?f r None] => destruct (fold_left f r None) end; [reflexivity|].
  destruct (str_eqb (p_in q) location && str_eqb n (p_name q)); reflexivity.
Qed.

Lemma add_params_assoc location n ps : forall acc,
  assoc n (fold_left (fun a p => if str_eqb (p_in p) location then set_assoc (p_name p) p a else a) ps acc) =
  match declared ps n location with Some p => Some p | None => assoc n acc end.
Proof.
  induction ps as [|q r IH]; intro acc; cbn [fold_left]; [reflexivity|]. rewrite IH.
  unfold declared at 2. cbn [fold_left]. rewrite declared_from.
  destruct (declared r n location) as [p|]; [reflexivity|].
  destruct (str_eqb (p_in q) location); cbn [andb]; [|reflexivity].
  destruct (str_eqb n (p_name q)) eqn:E.
  - apply str_eqb_eq in E. subst n. apply assoc_set_same.
  - apply assoc_set_other. exact E.
Qed.

(* the declaration the comparison uses for (name, location) *)
Theorem effective_param pp op location n :
  assoc n (get_params pp op location) =
  match declared op n location with Some p => Some p | None => declared pp n location end.
Proof.
  unfold get_params. rewrite add_params_assoc, add_params_assoc. cbn [assoc].
  destruct (declared op n location); [reflexivity|]. destruct (declared pp n location); reflexivity.
Qed.

Lemma declared_in ps n location p : declared ps n location = Some p -> In p ps /\ p_in p = location /\ p_name p = n.
Proof.
  unfold declared. assert (forall acc, fold_left (fun (acc : option param) (p : param) => if str_eqb (p_in p) location && str_eqb n (p_name p) then Some p else acc) ps acc = Some p ->
                                (In p ps /\ p_in p = location /\ p_name p = n) \/ acc = Some p) as G.
  { induction ps as [|q r IH]; intros acc H; cbn [fold_left] in H; [right; exact H|].
    destruct (IH _ H) as [[Hi Hr]|Hacc]; [left; split; [right; exact Hi|exact Hr]|].
    destruct (str_eqb (p_in q) location && str_eqb n (p_name q)) eqn:E; [|right; exact Hacc].
    inversion Hacc; subst q. apply andb_prop in E as [E1 E2]. apply str_eqb_eq in E1. apply str_eqb_eq in E2.
    left. split; [left; reflexivity|]. split; [exact E1|symmetry; exact E2]. }
  intro H. destruct (G None H) as [R|R]; [exact R|discriminate].
Qed.

(* what is compared at a location was declared at that location, under that name *)
Theorem effective_param_sound pp op location n p :
  assoc n (get_params pp op location) = Some p -> (In p op \/ In p pp) /\ p_in p = location /\ p_name p = n.
Proof.
  rewrite effective_param. destruct (declared op n location) as [q|] eqn:E.
  - intro H. inversion H; subst q. destruct (declared_in _ _ _ _ E) as [Hi Hr]. split; [left; exact Hi|exact Hr].
  - intro H. destruct (declared_in _ _ _ _ H) as [Hi Hr]. split; [right; exact Hi|exact Hr].
Qed.

(* a declaration is never lost: every declared (name, location) is compared *)
Lemma declared_some ps n location p : In p ps -> p_in p = location -> p_name p = n -> declared ps n location <> None.
Proof.
  unfold declared. intros Hin Hl Hn.
  assert (forall acc, fold_left (fun (acc : option param) (p : param) => if str_eqb (p_in p) location && str_eqb n (p_name p) then Some p else acc) ps acc <> None) as G.
  { revert Hin. induction ps as [|q r IH]; intros Hin acc; [destruct Hin|]. cbn [fold_left]. destruct Hin as [->|Hin].
    - rewrite Hl, Hn, !str_eqb_refl. cbn [andb]. rewrite declared_from. destruct (declared r n location); discriminate.
    - apply IH. exact Hin. }
  apply G.
Qed.

Theorem effective_param_complete pp op location p :
  In p op \/ In p pp -> p_in p = location -> assoc (p_name p) (get_params pp op location) <> None.
Proof.
  intros Hin Hl. rewrite effective_param. destruct (declared op (p_name p) location) as [q|] eqn:E; [discriminate|].
  destruct Hin as [Hin|Hin].
  - exfalso. exact (declared_some _ _ _ _ Hin Hl eq_refl E).
  - exact (declared_some _ _ _ _ Hin Hl eq_refl).
Qed.

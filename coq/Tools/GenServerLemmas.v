(* Tools/GenServerLemmas.v — proofs about Tools/GenServer.v *)
From GS Require Import Base.Str Tools.GenServer.

(* ---------------- C03 ---------------- *)
Lemma is_empty_nil (x : str) : is_empty x = true <-> x = [].
Proof. destruct x; cbn; split; congruence. Qed.

Lemma bind_ok_iff p rd hk : bind p rd hk <> Reject <-> req_ok p rd hk.
Proof.
  unfold bind, req_ok, carried. destruct p as [pth hdr req ae t]; cbn [sp_path sp_header sp_required sp_allow_empty sp_type].
  set (raw := last_raw rd).
  destruct pth; cbn [negb andb orb].
  - (* path parameters: present by construction *)
    destruct (convert t raw) as [v|] eqn:C.
    + destruct (valid_value t v) eqn:V; split.
      * intros _. repeat split; try discriminate. intros _. now exists v.
      * discriminate.
      * intro H; now contradiction H.
      * intros [_ [_ H]]. destruct (H (or_introl eq_refl)) as [v' [E V']]. congruence.
    + split; [intro H; now contradiction H|]. intros [_ [_ H]]. destruct (H (or_introl eq_refl)) as [v' [E _]]. discriminate.
  - destruct req, hk; cbn [negb andb orb].
    + (* required, key present *)
      destruct ae; cbn [negb andb orb].
      * destruct (is_empty raw) eqn:E.
        -- apply is_empty_nil in E. split; [intros _|discriminate].
           repeat split; auto. intros [H|H]; [discriminate | contradiction].
        -- assert (raw <> []) by (intro K; rewrite K in E; discriminate).
           destruct (convert t raw) as [v|] eqn:C; [destruct (valid_value t v) eqn:V|]; split; try discriminate; try (intro K; now contradiction K).
           ++ intros _. repeat split; auto; try contradiction. intros _. now exists v.
           ++ intros [_ [_ K]]. destruct (K (or_intror H)) as [v' [E' V']]. congruence.
           ++ intros [_ [_ K]]. destruct (K (or_intror H)) as [v' [E' _]]. discriminate.
      * destruct (is_empty raw) eqn:E.
        -- apply is_empty_nil in E. split; [intro K; now contradiction K|].
           intros [_ [K _]]. destruct (K eq_refl E) as [K'|K']; discriminate.
        -- assert (raw <> []) by (intro K; rewrite K in E; discriminate).
           destruct (convert t raw) as [v|] eqn:C; [destruct (valid_value t v) eqn:V|]; split; try discriminate; try (intro K; now contradiction K).
           ++ intros _. repeat split; auto; try contradiction. intros _. now exists v.
           ++ intros [_ [_ K]]. destruct (K (or_intror H)) as [v' [E' V']]. congruence.
           ++ intros [_ [_ K]]. destruct (K (or_intror H)) as [v' [E' _]]. discriminate.
    + (* required, key missing *)
      split; [intro K; now contradiction K|]. intros [K _]. discriminate (K eq_refl eq_refl).
    + (* optional, key present *)
      destruct (is_empty raw) eqn:E.
      * apply is_empty_nil in E. split; [intros _|discriminate]. repeat split; auto; try discriminate.
        intros [H|H]; [discriminate | contradiction].
      * assert (raw <> []) by (intro K; rewrite K in E; discriminate).
        destruct (convert t raw) as [v|] eqn:C; [destruct (valid_value t v) eqn:V|]; split; try discriminate; try (intro K; now contradiction K).
        -- intros _. repeat split; auto; try discriminate; try contradiction. intros _. now exists v.
        -- intros [_ [_ K]]. destruct (K (or_intror H)) as [v' [E' V']]. congruence.
        -- intros [_ [_ K]]. destruct (K (or_intror H)) as [v' [E' _]]. discriminate.
    + (* optional, key missing *)
      destruct (is_empty raw) eqn:E.
      * apply is_empty_nil in E. split; [intros _|discriminate]. repeat split; auto; try discriminate.
        intros [H|H]; [discriminate | contradiction].
      * assert (raw <> []) by (intro K; rewrite K in E; discriminate).
        destruct (convert t raw) as [v|] eqn:C; [destruct (valid_value t v) eqn:V|]; split; try discriminate; try (intro K; now contradiction K).
        -- intros _. repeat split; auto; try discriminate; try contradiction. intros _. now exists v.
        -- intros [_ [_ K]]. destruct (K (or_intror H)) as [v' [E' V']]. congruence.
        -- intros [_ [_ K]]. destruct (K (or_intror H)) as [v' [E' _]]. discriminate.
Qed.

Lemma bind_bound_value p rd hk v :
  bind p rd hk = Bound v -> convert (sp_type p) (carried rd) = Some v /\ valid_value (sp_type p) v = true.
Proof.
  unfold bind, carried. destruct (negb (sp_path p) && sp_required p && negb hk); [discriminate|].
  destruct (negb (sp_path p) && sp_required p && negb (sp_allow_empty p) && is_empty (last_raw rd)); [discriminate|].
  destruct (negb (sp_path p) && (negb (sp_required p) || sp_allow_empty p) && is_empty (last_raw rd)); [discriminate|].
  destruct (convert (sp_type p) (last_raw rd)) as [w|]; [|discriminate].
  destruct (valid_value (sp_type p) w) eqn:V; [|discriminate]. intro H. injection H as <-. now split.
Qed.

Lemma bind_absent_empty p rd hk :
  bind p rd hk = Absent -> carried rd = [] /\ sp_path p = false /\ (sp_required p = false \/ sp_allow_empty p = true).
Proof.
  unfold bind, carried. destruct (negb (sp_path p) && sp_required p && negb hk); [discriminate|].
  destruct (negb (sp_path p) && sp_required p && negb (sp_allow_empty p) && is_empty (last_raw rd)); [discriminate|].
  destruct (negb (sp_path p) && (negb (sp_required p) || sp_allow_empty p) && is_empty (last_raw rd)) eqn:E.
  - intros _. apply andb_true_iff in E as [E1 E3]. apply andb_true_iff in E1 as [E1 E2].
    apply is_empty_nil in E3. apply negb_true_iff in E1. split; [exact E3|]. split; [exact E1|].
    apply orb_true_iff in E2 as [E2|E2]; [left; now apply negb_true_iff | now right].
  - destruct (convert (sp_type p) (last_raw rd)) as [w|]; [|discriminate].
    destruct (valid_value (sp_type p) w); discriminate.
Qed.

(* ---------------- C04: collection formats ---------------- *)
Lemma split_on_nosep sep x : forall cur rest,
  existsb (N.eqb sep) x = false ->
  split_on sep (x ++ sep :: rest) cur = (rev cur ++ x) :: split_on sep rest [].
Proof.
  induction x as [|c r IH]; intros cur rest H.
  - cbn. rewrite N.eqb_refl. now rewrite app_nil_r.
  - cbn in H. apply orb_false_iff in H as [H1 H2]. cbn [app split_on].
    rewrite N.eqb_sym, H1. rewrite IH by assumption. cbn [rev]. now rewrite <- app_assoc.
Qed.

Lemma split_on_last sep x cur : existsb (N.eqb sep) x = false -> split_on sep x cur = [rev cur ++ x].
Proof.
  revert cur. induction x as [|c r IH]; intros cur H.
  - cbn. now rewrite app_nil_r.
  - cbn in H. apply orb_false_iff in H as [H1 H2]. cbn [split_on]. rewrite N.eqb_sym, H1, IH by assumption.
    cbn [rev]. now rewrite <- app_assoc.
Qed.

Lemma trim_left_id x c r : x = c :: r -> is_space c = false -> trim_left x = x.
Proof. intros -> H. cbn. now rewrite H. Qed.

Lemma trim_clean sep x : clean_item sep x = true -> trim x = x.
Proof.
  unfold clean_item, trim. intro H. apply andb_true_iff in H as [H H4]. apply andb_true_iff in H as [H H3].
  destruct x as [|c r]; [discriminate|]. apply negb_true_iff in H3.
  rewrite (trim_left_id (c :: r) c r eq_refl H3).
  destruct (rev (c :: r)) as [|d t] eqn:E; [discriminate|]. apply negb_true_iff in H4.
  rewrite (trim_left_id (d :: t) d t eq_refl H4). rewrite <- E. apply rev_involutive.
Qed.

Lemma clean_nosep sep x : clean_item sep x = true -> existsb (N.eqb sep) x = false.
Proof.
  unfold clean_item. intro H. apply andb_true_iff in H as [H _]. apply andb_true_iff in H as [H _].
  apply andb_true_iff in H as [_ H]. now apply negb_true_iff.
Qed.

Lemma clean_nonempty sep x : clean_item sep x = true -> is_empty x = false.
Proof.
  unfold clean_item. intro H. apply andb_true_iff in H as [H _]. apply andb_true_iff in H as [H _].
  apply andb_true_iff in H as [H _]. now apply negb_true_iff.
Qed.

Lemma split_on_join sep items :
  Forall (fun x => clean_item sep x = true) items -> items <> [] ->
  split_on sep (join_by sep items) [] = items.
Proof.
  induction 1 as [|x r Hx Hr IH]; intro NE; [contradiction|].
  destruct r as [|y r'].
  - cbn [join_by]. now rewrite split_on_last by (eapply clean_nosep; eassumption).
  - cbn [join_by]. rewrite split_on_nosep by (eapply clean_nosep; eassumption). cbn [rev app].
    f_equal. apply IH. discriminate.
Qed.

Lemma split_join sep items :
  Forall (fun x => clean_item sep x = true) items -> items <> [] ->
  split_by sep (join_by sep items) = items.
Proof.
  intros H NE. unfold split_by. rewrite (split_on_join sep items H NE).
  clear NE. induction H as [|x r Hx Hr IH]; [reflexivity|].
  cbn [map filter]. rewrite (trim_clean sep x Hx), (clean_nonempty sep x Hx). cbn [negb]. now rewrite IH.
Qed.

(* ---------------- C04: response dispatch ---------------- *)
Lemma client_read_code d h c : result_code (client_read d h c) = c.
Proof. unfold client_read. destruct (existsb (Z.eqb c) d); [reflexivity|]. destruct h; reflexivity. Qed.

Lemma client_read_typed_iff d h c : (exists c', client_read d h c = Typed c') <-> In c d.
Proof.
  unfold client_read. destruct (existsb (Z.eqb c) d) eqn:E.
  - split; [intros _|intros _; now exists c]. apply existsb_exists in E as [x [Hx Ex]]. apply Z.eqb_eq in Ex. now subst.
  - split.
    + intros [c' H]. destruct h; discriminate.
    + intro H. exfalso. assert (existsb (Z.eqb c) d = true) by (apply existsb_exists; exists c; split; [assumption | apply Z.eqb_refl]). congruence.
Qed.

Lemma client_read_undeclared d c : ~ In c d -> client_read d false c = APIError c.
Proof.
  intro H. unfold client_read. destruct (existsb (Z.eqb c) d) eqn:E; [|reflexivity].
  apply existsb_exists in E as [x [Hx Ex]]. apply Z.eqb_eq in Ex. subst. contradiction.
Qed.

(* ---------------- C06 ---------------- *)
Lemma auth_alt_some answer a : forall acc,
  (exists p, auth_alt answer a acc = Some p) <-> alt_sat answer a = true.
Proof.
  induction a as [|sch r IH]; intro acc; cbn.
  - split; [reflexivity | intros _; now exists acc].
  - destruct (answer sch) as [| |p]; cbn.
    + split; [intros [x H]; discriminate | discriminate].
    + split; [intros [x H]; discriminate | discriminate].
    + apply IH.
Qed.

Definition no_anonymous (r : requirement) : Prop := Forall (fun a => a <> []) r.

Lemma authenticate_iff_sat answer r :
  no_anonymous r -> ((exists p, authenticate answer r = Some p) <-> sat answer r = true).
Proof.
  induction 1 as [|a rest Ha Hr IH]; cbn.
  - split; [intros [p H]; discriminate | discriminate].
  - destruct a as [|sch a']; [contradiction|].
    change (match auth_alt answer (sch :: a') None with Some x => Some x | None => authenticate answer rest end)
      with (match auth_alt answer (sch :: a') None with Some x => Some x | None => authenticate answer rest end).
    destruct (auth_alt answer (sch :: a') None) as [x|] eqn:E.
    + assert (S : alt_sat answer (sch :: a') = true) by (apply (auth_alt_some answer (sch :: a') None); now exists x).
      rewrite S. split; [reflexivity | intros _; now exists x].
    + assert (S : alt_sat answer (sch :: a') = false).
      { destruct (alt_sat answer (sch :: a')) eqn:K; [|reflexivity].
        apply (auth_alt_some answer (sch :: a') None) in K as [x Hx]. congruence. }
      rewrite S. cbn [orb]. exact IH.
Qed.

(* the principal handed to the handler is one an authenticator of a satisfied alternative returned *)
Lemma auth_alt_principal answer a : forall acc p,
  auth_alt answer a acc = Some (Some p) -> acc = Some p \/ exists sch, In sch a /\ answer sch = Principal p.
Proof.
  induction a as [|sch r IH]; intros acc p H; cbn in H.
  - injection H as ->. now left.
  - destruct (answer sch) as [| |q] eqn:E; try discriminate.
    destruct (IH _ _ H) as [K|[s' [Hs Ks]]].
    + injection K as ->. right. exists sch. split; [now left | exact E].
    + right. exists s'. split; [now right | exact Ks].
Qed.

Lemma authenticate_principal answer r p :
  authenticate answer r = Some (Some p) -> exists a sch, In a r /\ In sch a /\ answer sch = Principal p /\ alt_sat answer a = true.
Proof.
  induction r as [|a rest IH]; cbn; [discriminate|].
  destruct a as [|s0 a'].
  - destruct (authenticate answer rest) as [x|] eqn:E; [|discriminate].
    intro H. injection H as ->. destruct (IH eq_refl) as [a [sch [H1 H2]]]. exists a, sch. split; [now right | exact H2].
  - destruct (auth_alt answer (s0 :: a') None) as [x|] eqn:E.
    + intro H. injection H as ->.
      destruct (auth_alt_principal answer (s0 :: a') None p E) as [K|[sch [Hs Ks]]]; [discriminate|].
      exists (s0 :: a'), sch. split; [now left|]. split; [exact Hs|]. split; [exact Ks|].
      apply (auth_alt_some answer (s0 :: a') None). now exists (Some p).
    + intro H. destruct (IH H) as [a [sch [H1 H2]]]. exists a, sch. split; [now right | exact H2].
Qed.

Lemma serve_handler_iff answer r ok :
  no_anonymous r ->
  ((exists p, serve answer r ok = Handler p) <-> (r = [] \/ sat answer r = true) /\ ok = true).
Proof.
  intro NA. unfold serve. destruct r as [|a rest].
  - cbn. destruct ok; split; try (intros [p H]; discriminate); try (intros [_ H]; discriminate).
    + intros _. split; [now left | reflexivity].
    + intros _. now exists None.
  - cbn [authed].
    destruct (authenticate answer (a :: rest)) as [x|] eqn:E.
    + assert (S : sat answer (a :: rest) = true) by (apply (authenticate_iff_sat answer _ NA); now exists x).
      destruct ok; split; try (intros [p H]; discriminate); try (intros [_ H]; discriminate).
      * intros _. split; [now right | reflexivity].
      * intros _. now exists x.
    + assert (S : sat answer (a :: rest) = false).
      { destruct (sat answer (a :: rest)) eqn:K; [|reflexivity].
        apply (authenticate_iff_sat answer _ NA) in K as [x Hx]. congruence. }
      split; [intros [p H]; discriminate|]. intros [[H|H] _]; [discriminate | congruence].
Qed.

Lemma serve_denied answer r ok :
  no_anonymous r -> r <> [] -> sat answer r = false -> serve answer r ok = Denied.
Proof.
  intros NA NE S. unfold serve. destruct r as [|a rest]; [contradiction|]. cbn [authed].
  destruct (authenticate answer (a :: rest)) as [x|] eqn:E; [|reflexivity].
  assert (sat answer (a :: rest) = true) by (apply (authenticate_iff_sat answer _ NA); now exists x). congruence.
Qed.

(* ---------------- C03: array parameters ---------------- *)
Lemma conv_items_spec t l vs :
  conv_items t l = Some vs <-> Forall2 (fun raw v => convert t raw = Some v /\ valid_value t v = true) l vs.
Proof.
  revert vs. induction l as [|x r IH]; intros vs; cbn [conv_items].
  - split; [intros H; inversion H; constructor | intros H; inversion H; reflexivity].
  - destruct (convert t x) as [v|] eqn:C.
    + destruct (valid_value t v) eqn:V.
      * destruct (conv_items t r) as [vr|] eqn:R; cbn [option_map].
        -- split.
           ++ intros H. inversion H; subst. constructor; [split; assumption | apply IH; reflexivity].
           ++ intros H. inversion H as [|? ? ? ? [C' V'] HR]; subst. rewrite C in C'. inversion C'; subst.
              apply IH in HR. inversion HR. reflexivity.
        -- split; [discriminate|]. intros H. inversion H as [|? ? ? ? _ HR]; subst. apply IH in HR. discriminate.
      * split; [discriminate|]. intros H. inversion H as [|? ? ? ? [C' V'] _]; subst. rewrite C in C'. inversion C'; subst. congruence.
    + split; [discriminate|]. intros H. inversion H as [|? ? ? ? [C' _] _]; subst. congruence.
Qed.

Lemma Forall2_fun {A B} (R : A -> B -> Prop) l a b : (forall x y z, R x y -> R x z -> y = z) -> Forall2 R l a -> Forall2 R l b -> a = b.
Proof.
  intros F H. revert b. induction H as [|x y l' a' Hxy H IH]; intros b Hb; inversion Hb; subst; [reflexivity|].
  f_equal; [eapply F; eassumption | apply IH; assumption].
Qed.

Definition items_ok (p : aparam) (items : list str) : Prop :=
  exists vs, Forall2 (fun raw v => convert (ap_elem p) raw = Some v /\ valid_value (ap_elem p) v = true) items vs /\
             count_ok p vs = true /\ (ap_unique p = true -> distinct_values vs = true).

Lemma bind_items_iff p items :
  match conv_items (ap_elem p) items with
  | None => AReject
  | Some vs => if count_ok p vs && (if ap_unique p then distinct_values vs else true) then ABound vs else AReject
  end <> AReject <-> items_ok p items.
Proof.
  unfold items_ok. destruct (conv_items (ap_elem p) items) as [vs|] eqn:C.
  - destruct (count_ok p vs && (if ap_unique p then distinct_values vs else true)) eqn:K.
    + split; [|discriminate]. intros _. exists vs. apply andb_prop in K as [K1 K2].
      split; [apply conv_items_spec; exact C|]. split; [exact K1|]. intros U. rewrite U in K2. exact K2.
    + split; [intros H; contradiction H; reflexivity|]. intros [vs' [F [K1 K2]]].
      apply conv_items_spec in F. rewrite C in F. inversion F; subst vs'. rewrite K1 in K. cbn [andb] in K.
      destruct (ap_unique p); [rewrite (K2 eq_refl) in K; discriminate | discriminate].
  - split; [intros H; contradiction H; reflexivity|]. intros [vs' [F _]]. apply conv_items_spec in F. congruence.
Qed.

Theorem bind_array_iff p rd hk : bind_array p rd hk <> AReject <-> areq_ok p rd hk.
Proof.
  unfold bind_array, areq_ok. fold (items_ok p (items_of p rd)).
  destruct (ap_required p && negb hk) eqn:RK.
  - split; [intros H; contradiction H; reflexivity|]. intros [H _].
    apply andb_prop in RK as [R K]. rewrite (H R) in K. discriminate.
  - assert (ap_required p = true -> hk = true) as Hk.
    { intros R. rewrite R in RK. destruct hk; [reflexivity|discriminate]. }
    destruct (items_of p rd) as [|i0 ir] eqn:I.
    + destruct (must_have p) eqn:M.
      * split; [intros H; contradiction H; reflexivity|]. intros [_ [H _]]. specialize (H eq_refl). discriminate.
      * split; [|discriminate]. intros _. split; [exact Hk|]. split; [reflexivity|]. intros H. contradiction H. reflexivity.
    + rewrite bind_items_iff. split.
      * intros H. split; [exact Hk|]. split; [discriminate|]. intros _. exact H.
      * intros [_ [_ H]]. apply H. discriminate.
Qed.

(* what the handler sees: the typed, validated values of the items, in order *)
Theorem bind_array_values p rd hk vs : bind_array p rd hk = ABound vs ->
  Forall2 (fun raw v => convert (ap_elem p) raw = Some v /\ valid_value (ap_elem p) v = true) (items_of p rd) vs /\
  count_ok p vs = true /\ (ap_unique p = true -> distinct_values vs = true).
Proof.
  unfold bind_array. destruct (ap_required p && negb hk); [discriminate|].
  destruct (items_of p rd) as [|i0 ir] eqn:I; [destruct (must_have p); discriminate|].
  destruct (conv_items (ap_elem p) (i0 :: ir)) as [ws|] eqn:C; [|discriminate].
  destruct (count_ok p ws && (if ap_unique p then distinct_values ws else true)) eqn:K; [|discriminate].
  intros H. inversion H; subst ws. apply andb_prop in K as [K1 K2]. split; [apply conv_items_spec; exact C|]. split; [exact K1|].
  intros U. rewrite U in K2. exact K2.
Qed.

(* ================= nested array parameters ================= *)
(* the nested model restricted to leaves is the one-level model *)
Definition lift_param (p : aparam) : nparam :=
  {| np_required := ap_required p; np_allow_empty := ap_allow_empty p; np_sep := ap_sep p; np_items := NLeaf (ap_elem p);
     np_minitems := ap_minitems p; np_maxitems := ap_maxitems p; np_unique := ap_unique p |}.
Definition lift_outcome (o : aoutcome) : noutcome :=
  match o with AReject => NReject | AAbsent => NAbsent | ABound vs => NBound (map NV vs) end.

Lemma conv_elems_leaf t l : conv_elems (NLeaf t) l = option_map (map NV) (conv_items t l).
Proof.
  induction l as [|x r IH]; [reflexivity|]. cbn [conv_elems conv_elem conv_items].
  destruct (convert t x) as [v|]; [|reflexivity]. destruct (valid_value t v); [|reflexivity].
  rewrite IH. destruct (conv_items t r); reflexivity.
Qed.

Lemma existsb_nv v r : existsb (nvalue_eqb (NV v)) (map NV r) = existsb (value_eq v) r.
Proof. induction r as [|w r' IHr]; [reflexivity|]. cbn [map existsb]. rewrite IHr. reflexivity. Qed.

Lemma distinct_nvalues_leaf vs : distinct_nvalues (map NV vs) = distinct_values vs.
Proof.
  induction vs as [|v r IH]; [reflexivity|]. cbn [map distinct_nvalues distinct_values]. rewrite IH, existsb_nv. reflexivity.
Qed.

Theorem nested_generalises_flat p rd hk :
  ap_multi p = false -> bind_nested (lift_param p) rd hk = lift_outcome (bind_array p rd hk).
Proof.
  intro M. unfold bind_nested, bind_array, lift_param, must_have, items_of, count_ok, len_ok. cbn [np_required np_allow_empty np_sep np_items np_minitems np_maxitems np_unique].
  rewrite M. destruct (ap_required p && negb hk); [reflexivity|].
  destruct (split_by (ap_sep p) (last_raw rd)) as [|i0 ir] eqn:S.
  - destruct (ap_required p && negb (ap_allow_empty p)); reflexivity.
  - rewrite conv_elems_leaf. destruct (conv_items (ap_elem p) (i0 :: ir)) as [vs|]; [|reflexivity].
    cbn [option_map]. rewrite map_length, distinct_nvalues_leaf.
    destruct (_ && _); reflexivity.
Qed.

(* whatever reaches the handler: every leaf is the conversion of a text and satisfies the leaf's constraints *)
Fixpoint leaves_ok (it : nitems) (v : nvalue) {struct it} : bool :=
  match it, v with
  | NLeaf t, NV x => valid_value t x
  | NArr _ _ _ _ inner, NL l => forallb (leaves_ok inner) l
  | _, _ => false
  end.

Lemma conv_elem_leaves : forall it raw v, conv_elem it raw = Some (Some v) -> leaves_ok it v = true.
Proof.
  induction it as [t|sep mn mx u inner IH]; intros raw v H.
  - cbn in H. destruct (convert t raw) as [x|]; [|discriminate]. destruct (valid_value t x) eqn:V; [|discriminate].
    inversion H; subst v. exact V.
  - cbn [conv_elem] in H. destruct (negb (len_ok mn mx (length (split_by sep raw)))); [discriminate|].
    destruct (u && negb (distinct_texts (split_by sep raw))); [discriminate|].
    remember (split_by sep raw) as parts eqn:Ep.
    match type of H with context [option_map _ (?F parts)] => set (G := F) in *  end.
    assert (forall l vs, G l = Some vs -> forallb (leaves_ok inner) vs = true) as HF.
    { induction l as [|x r IHl]; intros vs Hl.
      - inversion Hl; subst vs. reflexivity.
      - cbn in Hl. destruct (conv_elem inner x) as [[w|]|] eqn:E; try discriminate.
        + fold G in Hl. destruct (G r) as [ws|] eqn:Er; [|discriminate].
          inversion Hl; subst vs. cbn [forallb]. rewrite (IH _ _ E). apply IHl. reflexivity.
        + apply IHl. exact Hl. }
    destruct parts as [|p0 pr]; [discriminate|].
    change (option_map (fun vs => Some (NL vs)) (G (p0 :: pr)) = Some (Some v)) in H.
    destruct (G (p0 :: pr)) as [vs|] eqn:E; [|discriminate].
    inversion H; subst v. cbn [leaves_ok]. eapply HF. exact E.
Qed.

Lemma conv_elems_leaves it : forall l vs, conv_elems it l = Some vs -> forallb (leaves_ok it) vs = true.
Proof.
  induction l as [|x r IH]; intros vs H.
  - inversion H; subst vs. reflexivity.
  - cbn [conv_elems] in H. destruct (conv_elem it x) as [[w|]|] eqn:E; try discriminate.
    + destruct (conv_elems it r) as [ws|] eqn:Er; [|discriminate]. inversion H; subst vs.
      cbn [forallb]. rewrite (conv_elem_leaves _ _ _ E). apply IH. reflexivity.
    + apply IH. exact H.
Qed.

Theorem bind_nested_values p rd hk vs : bind_nested p rd hk = NBound vs ->
  forallb (leaves_ok (np_items p)) vs = true /\
  len_ok (np_minitems p) (np_maxitems p) (length vs) = true /\ (np_unique p = true -> distinct_nvalues vs = true).
Proof.
  unfold bind_nested. destruct (np_required p && negb hk); [discriminate|].
  destruct (split_by (np_sep p) (last_raw rd)) as [|i0 ir]; [destruct (_ && _); discriminate|].
  destruct (conv_elems (np_items p) (i0 :: ir)) as [ws|] eqn:C; [|discriminate].
  destruct (len_ok _ _ _ && _) eqn:K; [|discriminate]. intro H. inversion H; subst ws.
  apply andb_prop in K as [K1 K2]. split; [eapply conv_elems_leaves; exact C|]. split; [exact K1|].
  intro U. rewrite U in K2. exact K2.
Qed.

(* an inner level is accepted only with its item counts in range and, when unique, with parts that differ AS TEXTS *)
Theorem conv_elem_inner_checks sep mn mx u inner raw o :
  conv_elem (NArr sep mn mx u inner) raw = Some o ->
  len_ok mn mx (length (split_by sep raw)) = true /\ (u = true -> distinct_texts (split_by sep raw) = true).
Proof.
  cbn [conv_elem]. destruct (len_ok mn mx (length (split_by sep raw))); cbn [negb]; [|discriminate].
  destruct u; cbn [andb]; [|intros _; split; [reflexivity|discriminate]].
  destruct (distinct_texts (split_by sep raw)); cbn [negb]; [|discriminate]. intros _. split; reflexivity.
Qed.

(* Tools/ClientServer.v — C04 for scalar parameters: what the generated client writes for a value
   (client/parameter.gotmpl: the string itself, swag.FormatInt*, swag.FormatBool) is bound by the generated server to
   the same value. *)
From GS Require Import Base.Str Tools.Decimal Tools.GenServer Tools.IntText.

Definition render (v : value) : str :=
  match v with
  | VStr x => x
  | VInt z => dec_text z
  | VBool b => if b then s "true" else s "false"
  end.

(* the value has the Go type generated for the parameter *)
Definition typed (t : ptype) (v : value) : bool :=
  match t, v with
  | PStr _ _ _, VStr _ => true
  | PInt lo hi _ _ _ _, VInt z => Z.leb lo z && Z.leb z hi
  | PBool, VBool _ => true
  | _, _ => false
  end.

Lemma dec_text_nonempty z : dec_text z <> [].
Proof.
  intros E. pose proof (parse_int_go_dec_text z) as H. rewrite E in H. discriminate.
Qed.

Lemma convert_render t v : typed t v = true -> convert t (render v) = Some v.
Proof.
  destruct t as [lo hi en|lo hi mn xl mx xh|], v as [x|z|b]; cbn [typed render convert]; try discriminate; intros H.
  - reflexivity.
  - rewrite parse_int_go_dec_text, H. reflexivity.
  - destruct b; vm_compute; reflexivity.
Qed.

Theorem param_roundtrip p v :
  typed (sp_type p) v = true -> valid_value (sp_type p) v = true -> render v <> [] ->
  bind p [render v] true = Bound v.
Proof.
  intros T V NE. unfold bind. cbn [negb andb]. rewrite !Bool.andb_false_r. unfold last_raw. cbn [last].
  assert (is_empty (render v) = false) as E by (destruct (render v); [contradiction | reflexivity]).
  rewrite E, !Bool.andb_false_r. rewrite (convert_render _ _ T), V. reflexivity.
Qed.

(* integers and booleans always have a non-empty rendering *)
Corollary int_param_roundtrip p z :
  typed (sp_type p) (VInt z) = true -> valid_value (sp_type p) (VInt z) = true -> bind p [dec_text z] true = Bound (VInt z).
Proof. intros T V. apply (param_roundtrip p (VInt z) T V). apply dec_text_nonempty. Qed.

(* Tools/Names.v — model of the identifier mangling go-swagger applies to every name taken from a spec:
   go-openapi/swag v0.23 split.go / name_lexem.go / util.go (splitter with initialisms, ToGoName, ToVarName, ToFileName,
   ToHumanNameTitle) and generator/template_repo.go (pascalize, prefixForName), generator/language.go (MangleVarName,
   MangleFileName, MangleName) and the operation key of generator/shared.go gatherOperations.
   Names are lists of code points; Go's unicode tables are a parameter [u : uni].  Definitions only. *)
From GS Require Import Base.Str Gen.GenLanguage.

Definition rune := N.
Definition runes := list rune.

Record uni := {
  u_upper : rune -> bool;      (* unicode.IsUpper *)
  u_lower : rune -> bool;      (* unicode.IsLower *)
  u_letter : rune -> bool;     (* unicode.IsLetter *)
  u_digit : rune -> bool;      (* unicode.IsDigit (Nd) *)
  u_lmnpc : rune -> bool;      (* unicode.In(r, L, M, N, Pc) *)
  u_space : rune -> bool;      (* unicode.IsSpace *)
  u_toupper : rune -> rune;
  u_tolower : rune -> rune }.

(* ---- ASCII, as the Go tables have it ---- *)
Definition a_upper (c : rune) : bool := N.leb 65 c && N.leb c 90.
Definition a_lower (c : rune) : bool := N.leb 97 c && N.leb c 122.
Definition a_digit (c : rune) : bool := N.leb 48 c && N.leb c 57.
Definition a_space (c : rune) : bool := (N.leb 9 c && N.leb c 13) || N.eqb c 32.
Definition is_ascii (c : rune) : bool := N.ltb c 128.

Record uinfo := { i_upper : bool; i_lower : bool; i_letter : bool; i_digit : bool; i_lmnpc : bool; i_space : bool; i_up : rune; i_lo : rune }.
Definition ascii_info (c : rune) : uinfo :=
  {| i_upper := a_upper c; i_lower := a_lower c; i_letter := a_upper c || a_lower c; i_digit := a_digit c;
     i_lmnpc := a_upper c || a_lower c || a_digit c || N.eqb c 95; i_space := a_space c;
     i_up := if a_lower c then (c - 32)%N else c; i_lo := if a_upper c then (c + 32)%N else c |}.
Definition other_info (c : rune) : uinfo :=
  {| i_upper := false; i_lower := false; i_letter := false; i_digit := false; i_lmnpc := false; i_space := false; i_up := c; i_lo := c |}.
Fixpoint lookup_info (tbl : list (rune * uinfo)) (c : rune) : option uinfo :=
  match tbl with [] => None | (k, v) :: r => if N.eqb k c then Some v else lookup_info r c end.
Definition info_of (tbl : list (rune * uinfo)) (c : rune) : uinfo :=
  if is_ascii c then ascii_info c else match lookup_info tbl c with Some i => i | None => other_info c end.
(* the classifier a correspondence case runs with: ASCII built in, every other rune the case mentions tabulated from Go *)
Definition table_uni (tbl : list (rune * uinfo)) : uni :=
  {| u_upper := fun c => i_upper (info_of tbl c); u_lower := fun c => i_lower (info_of tbl c);
     u_letter := fun c => i_letter (info_of tbl c); u_digit := fun c => i_digit (info_of tbl c);
     u_lmnpc := fun c => i_lmnpc (info_of tbl c); u_space := fun c => i_space (info_of tbl c);
     u_toupper := fun c => i_up (info_of tbl c); u_tolower := fun c => i_lo (info_of tbl c) |}.

Definition runes_eqb (a b : runes) : bool := str_eqb a b.

(* sorted as swag sorts them: longer first, then ascending *)
Definition initialisms : list runes :=
  [s "ASCII"; s "HTTPS";
   s "GUID"; s "HTML"; s "HTTP"; s "IPv4"; s "IPv6"; s "JSON"; s "SMTP"; s "UTF8"; s "UUID"; s "XMPP"; s "XSRF";
   s "ACL"; s "API"; s "CPU"; s "CSS"; s "DNS"; s "EOF"; s "LHS"; s "OAI"; s "QPS"; s "RAM"; s "RHS"; s "RPC"; s "SLA"; s "SQL";
   s "SSH"; s "TCP"; s "TLS"; s "TTL"; s "UDP"; s "UID"; s "URI"; s "URL"; s "XML"; s "XSS";
   s "ID"; s "IP"; s "UI"; s "VM"].

Inductive lexem := Casual (o : runes) | Init (o m : runes).
Definition lex_original (l : lexem) : runes := match l with Casual o | Init o _ => o end.
Definition lex_is_init (l : lexem) : bool := match l with Init _ _ => true | _ => false end.

(* nameReplaceTable *)
Definition replace_word (r : rune) : option runes :=
  if N.eqb r 64 then Some (s "At ") else if N.eqb r 38 then Some (s "And ") else if N.eqb r 124 then Some (s "Pipe ")
  else if N.eqb r 36 then Some (s "Dollar ") else if N.eqb r 33 then Some (s "Bang ")
  else if N.eqb r 45 then Some [] else if N.eqb r 95 then Some [] else None.

Section WithUni.
Variable u : uni.

Fixpoint trim_l (x : runes) : runes := match x with c :: r => if u_space u c then trim_l r else x | [] => [] end.
Definition trim_sp (x : runes) : runes := rev (trim_l (rev (trim_l x))).
Definition upper_s (x : runes) : runes := map (u_toupper u) (trim_sp x).
Definition lower_s (x : runes) : runes := map (u_tolower u) (trim_sp x).

(* isEqualFoldIgnoreSpace(base, str): base upper-cased and trimmed *)
Definition blank (c : rune) : bool := if is_ascii c then N.eqb c 32 || N.eqb c 9 else u_space u c.
Fixpoint skip_blank (x : runes) : runes := match x with c :: r => if blank c then skip_blank r else x | [] => [] end.
Definition fold_rune_eq (b c : rune) : bool :=
  if is_ascii c then is_ascii b && (N.eqb c b || (a_lower c && N.eqb (c - 32) b)) else N.eqb (u_toupper u c) b.
(* consume base against str: Some rest when every base rune matched (or str ran out: then the index check fails) *)
Fixpoint fold_prefix (base x : runes) : option runes :=
  match base with
  | [] => Some x
  | b :: bs => match x with [] => None | c :: r => if fold_rune_eq b c then fold_prefix bs r else None end
  end.
Definition equal_fold_ignore_space (base x : runes) : bool :=
  match skip_blank x with
  | [] => is_empty base
  | x' => match fold_prefix base x' with Some rest => is_empty (skip_blank rest) | None => false end
  end.

Fixpoint find_initialism (l : list runes) (orig : runes) : option runes :=
  match l with
  | [] => None
  | i :: r => if equal_fold_ignore_space (upper_s i) orig then Some i else find_initialism r orig
  end.
Definition name_lexem (post : bool) (orig : runes) : lexem :=
  if post then match find_initialism initialisms orig with Some i => Init orig i | None => Casual orig end else Casual orig.

(* appendBrokenDownCasualString; [cur] is the current segment, reversed *)
Definition flush (post : bool) (cur : runes) : list lexem := match cur with [] => [] | _ => [name_lexem post (rev cur)] end.
Fixpoint casual (post : bool) (x cur : runes) : list lexem :=
  match x with
  | [] => flush post cur
  | r :: rest =>
      match replace_word r with
      | Some w => flush post cur ++ (match w with [] => [] | _ => [name_lexem post w] end) ++ casual post rest []
      | None =>
          if negb (u_lmnpc u r) then flush post cur ++ casual post rest []
          else if u_upper u r then flush post cur ++ casual post rest [r]
          else casual post rest (r :: cur)
      end
  end.

(* gatherInitialismMatches *)
Record imatch := { m_body : runes; m_start : nat; m_end : nat; m_complete : bool }.
Definition advance (pos : nat) (cur : rune) (next : option rune) (m : imatch) : list imatch :=
  if m_complete m then [m]
  else if negb (N.eqb (nth (pos - m_start m) (m_body m) 0%N) cur) then []
  else if Nat.eqb (pos - m_start m) (length (m_body m) - 1) then
    match next with
    | Some n => if u_lower u n then [] else [{| m_body := m_body m; m_start := m_start m; m_end := pos; m_complete := true |}]
    | None => [{| m_body := m_body m; m_start := m_start m; m_end := pos; m_complete := true |}]
    end
  else [m].
Definition new_matches (pos : nat) (cur : rune) : list imatch :=
  map (fun i => {| m_body := i; m_start := pos; m_end := 0; m_complete := false |})
      (filter (fun i => match i with c :: _ => N.eqb c cur | [] => false end) initialisms).
Fixpoint gather (x : runes) (pos : nat) (ms : list imatch) : list imatch :=
  match x with
  | [] => ms
  | cur :: rest => gather rest (S pos) (flat_map (advance pos cur (hd_error rest)) ms ++ new_matches pos cur)
  end.

(* mapMatchesToNameLexems *)
Definition slice (x : runes) (from to : nat) : runes := firstn (to - from) (skipn from x).
Fixpoint map_matches (post : bool) (name : runes) (ms : list imatch) (last : option imatch) : list lexem * option imatch :=
  match ms with
  | [] => ([], last)
  | m :: rest =>
      if negb (m_complete m) then map_matches post name rest last
      else match last with
           | None =>
               let (ls, l') := map_matches post name rest (Some m) in
               (casual post (firstn (m_start m) name) [] ++ Init (m_body m) (m_body m) :: ls, l')
           | Some l =>
               if Nat.leb (m_start m) (m_end l) then map_matches post name rest last
               else let (ls, l') := map_matches post name rest (Some m) in
                    (casual post (slice name (S (m_end l)) (m_start m)) [] ++ Init (m_body m) (m_body m) :: ls, l')
           end
  end.
Definition split (post : bool) (name : runes) : list lexem :=
  match name with
  | [] => []
  | _ =>
      let (ls, last) := map_matches post name (gather name 0 []) None in
      match last with
      | None => casual post name []
      | Some l => if Nat.eqb (S (m_end l)) (length name) then ls else ls ++ casual post (skipn (S (m_end l)) name) []
      end
  end.

(* nameLexem.GetUnsafeGoName *)
Definition unsafe_go_name (l : lexem) : runes :=
  match l with
  | Init _ m => m
  | Casual o => match o with
                | [c] => if is_ascii c then o else [u_toupper u c]
                | c :: rest => u_toupper u c :: lower_s rest
                | [] => []
                end
  end.
Definition go_part (l : lexem) : runes := if lex_is_init l then upper_s (unsafe_go_name l) else unsafe_go_name l.

(* swag.ToGoName with a prefix function *)
Definition to_go_name (pfx : runes -> runes) (name : runes) : runes :=
  match split true name with
  | [] => []
  | l0 :: ls =>
      let first := go_part l0 in
      let head :=
        match first with
        | [] => []
        | c :: r =>
            if is_ascii c then
              if a_upper c then first else if a_lower c then (c - 32)%N :: r else pfx name ++ first
            else if negb (u_letter u c) then pfx name ++ first
            else if negb (u_upper u c) then pfx name ++ first
            else first
        end in
      head ++ flat_map go_part ls
  end.

Definition swag_prefix (_ : runes) : runes := s "X".

(* generator/template_repo.go prefixForName *)
Definition prefix_for_name (arg : runes) : runes :=
  match arg with
  | [] => []
  | c :: _ =>
      if u_letter u c then []
      else if N.eqb c 43 then s "Plus" else if N.eqb c 45 then s "Minus" else if N.eqb c 35 then s "HashTag"
      else if N.eqb c 42 then s "Asterisk" else if N.eqb c 47 then s "ForwardSlash" else if N.eqb c 61 then s "EqualSign"
      else s "Nr"
  end.

Definition special_single (c : rune) : bool :=
  N.eqb c 43 || N.eqb c 45 || N.eqb c 35 || N.eqb c 95 || N.eqb c 42 || N.eqb c 47 || N.eqb c 61.
Definition pascalize (arg : runes) : runes :=
  match arg with
  | [] => s "Empty"
  | [c] => if special_single c then prefix_for_name arg else to_go_name prefix_for_name (to_go_name prefix_for_name arg)
  | _ => to_go_name prefix_for_name (to_go_name prefix_for_name arg)
  end.

(* swag.ToVarName: [None] when the byte slice res[:1] cuts a multi-byte rune (the result is not valid UTF-8) *)
Definition is_initialism (x : runes) : bool := mem x initialisms.
Definition to_var_name (pfx : runes -> runes) (name : runes) : option runes :=
  let res := to_go_name pfx name in
  if is_initialism res then Some (lower_s res)
  else match res with
       | [] => Some []
       | c :: rest => if is_ascii c then Some (lower_s [c] ++ rest) else None
       end.

(* swag.ToFileName *)
Definition to_file_name (name : runes) : runes := join [95%N] (map (fun l => lower_s (lex_original l)) (split false name)).

(* swag.ToHumanNameTitle *)
Definition camelize_word (w : runes) : runes := match w with [] => [] | c :: r => u_toupper u c :: map (u_tolower u) r end.
Definition to_human_title (name : runes) : runes :=
  join [32%N] (map (fun l => if lex_is_init l then trim_sp (lex_original l) else camelize_word (trim_sp (lex_original l))) (split true name)).

(* ---- generator/language.go ---- *)
(* both tables are regenerated from GoLangOpts on every run (Gen/GenLanguage.v) *)
Definition reserved_words : list runes := gen_reserved_words.
Definition build_suffixes : list runes := gen_build_suffixes.

(* what the go tool reads in the last word(s) of a file name: go/build/syslist.go knownOS and knownArch (past, present and
   future ports: the lists only grow) and _test.  This is the toolchain's side, not go-swagger's. *)
Definition go_build_words : list runes :=
  [s "aix"; s "android"; s "darwin"; s "dragonfly"; s "freebsd"; s "hurd"; s "illumos"; s "ios"; s "js"; s "linux"; s "nacl";
   s "netbsd"; s "openbsd"; s "plan9"; s "solaris"; s "wasip1"; s "windows"; s "zos";
   s "386"; s "amd64"; s "amd64p32"; s "arm"; s "armbe"; s "arm64"; s "arm64be"; s "loong64"; s "mips"; s "mipsle"; s "mips64";
   s "mips64le"; s "mips64p32"; s "mips64p32le"; s "ppc"; s "ppc64"; s "ppc64le"; s "riscv"; s "riscv64"; s "s390"; s "s390x";
   s "sparc"; s "sparc64"; s "wasm"; s "test"].

Definition mangle_var_name (name : runes) : option runes :=
  match to_var_name prefix_for_name name with
  | None => None
  | Some nm => Some (if mem nm reserved_words then nm ++ s "Var" else nm)
  end.

(* strings.Split(x, "_") *)
Fixpoint split_us (x cur : runes) : list runes :=
  match x with
  | [] => [rev cur]
  | c :: r => if N.eqb c 95 then rev cur :: split_us r [] else split_us r (c :: cur)
  end.
Definition mangle_file_parts (name : runes) : list runes :=
  let parts := split_us (to_file_name name) [] in
  if mem (last parts []) build_suffixes then parts ++ [s "swagger"] else parts.
Definition mangle_file_name (name : runes) : runes := join [95%N] (mangle_file_parts name).

(* the model-file name of DefaultSectionOpts: snakize (pascalize .Name), then GenOpts.fileName = swag.ToFileName again *)
Definition model_file_name (def : runes) : runes := to_file_name (mangle_file_name (pascalize def)).

(* gatherOperations: Key = ToGoName(lower(method) + " " + ToHumanNameTitle(path)) *)
Definition op_key (method path : runes) : runes :=
  to_go_name prefix_for_name (map (u_tolower u) method ++ 32%N :: to_human_title path).

End WithUni.

(* ---- Go identifiers ---- *)
Definition ident_char (u : uni) (c : rune) : bool := u_letter u c || u_digit u c || N.eqb c 95.
Definition go_ident (u : uni) (x : runes) : bool :=
  match x with [] => false | c :: r => (u_letter u c || N.eqb c 95) && forallb (ident_char u) r end.
Definition go_exported (u : uni) (x : runes) : bool :=
  match x with [] => false | c :: _ => u_upper u c && go_ident u x end.

(* ================= C08: naming plan of a spec (names only) ================= *)
Record opspec := { o_method : runes; o_path : runes; o_id : runes }.

(* the operations map of gatherOperations, as an association list keyed by name; oprefs sorted by Key beforehand *)
Fixpoint assoc_op (k : runes) (m : list (runes * opspec)) : option opspec :=
  match m with [] => None | (k', v) :: r => if runes_eqb k k' then Some v else assoc_op k r end.
Fixpoint put_op (k : runes) (v : opspec) (m : list (runes * opspec)) : list (runes * opspec) :=
  match m with
  | [] => [(k, v)]
  | (k', v') :: r => if runes_eqb k k' then (k, v) :: r else (k', v') :: put_op k v r
  end.
Definition gather_step (u : uni) (m : list (runes * opspec)) (o : opspec) : list (runes * opspec) :=
  let key := op_key u (o_method o) (o_path o) in
  let nm := if is_empty (o_id o) then key else o_id o in
  let nm' := match assoc_op nm m with
             | Some oo => if negb (runes_eqb (o_method oo) (o_method o)) && negb (runes_eqb (o_path oo) (o_path o)) then key else nm
             | None => nm
             end in
  put_op nm' {| o_method := o_method o; o_path := o_path o; o_id := nm' |} m.
Definition gather_operations (u : uni) (sorted_ops : list opspec) : list (runes * opspec) := fold_left (gather_step u) sorted_ops [].

(* an operation of the spec is represented when the map holds an entry with its method and path *)
Definition represented (m : list (runes * opspec)) (o : opspec) : bool :=
  existsb (fun kv => runes_eqb (o_method (snd kv)) (o_method o) && runes_eqb (o_path (snd kv)) (o_path o)) m.

(* ================= C08: the plan either gives every operation / definition a name of its own or fails ================= *)
Fixpoint nodupb (l : list runes) : bool :=
  match l with [] => true | x :: r => negb (mem x r) && nodupb r end.

(* newAppGenerator + makeCodegenApp: checkOperationsKept, checkDistinctOperationNames (operations of one package) *)
Definition plan_ops (u : uni) (ops : list opspec) : option (list (runes * opspec)) :=
  let m := gather_operations u ops in
  if forallb (represented m) ops && nodupb (map (fun kv => pascalize u (fst kv)) m) then Some m else None.

(* the same with the packages of the operations (one per tag): checkDistinctOperationNames compares go names inside one
   package; the cli renders the commands of all operations in one package, so [flat] compares them across packages.
   [pk] gives the package of a route; routes it does not list are in the default package [] *)
Definition pkg_tbl := list ((runes * runes) * runes).
Fixpoint pkg_of (pk : pkg_tbl) (o : opspec) : runes :=
  match pk with
  | [] => []
  | ((m, p), g) :: r => if runes_eqb m (o_method o) && runes_eqb p (o_path o) then g else pkg_of r o
  end.
Definition qualified (u : uni) (pk : pkg_tbl) (flat : bool) (kv : runes * opspec) : runes * runes :=
  (if flat then [] else pkg_of pk (snd kv), pascalize u (fst kv)).
Definition qual_eqb (a b : runes * runes) : bool := runes_eqb (fst a) (fst b) && runes_eqb (snd a) (snd b).
Fixpoint nodupq (l : list (runes * runes)) : bool :=
  match l with [] => true | x :: r => negb (existsb (qual_eqb x) r) && nodupq r end.
Definition plan_ops_pkg (u : uni) (pk : pkg_tbl) (flat : bool) (ops : list opspec) : option (list (runes * opspec)) :=
  let m := gather_operations u ops in
  if forallb (represented m) ops && nodupq (map (qualified u pk flat) m) then Some m else None.

(* checkDistinctModelNames: go type and (case-insensitive) source file per definition *)
Definition def_type (u : uni) (d : runes) : runes := pascalize u d.
Definition def_file (u : uni) (d : runes) : runes := map (u_tolower u) (mangle_file_name u (pascalize u d)).
Definition plan_defs (u : uni) (defs : list runes) : option (list (runes * (runes * runes))) :=
  if nodupb (map (def_type u) defs) && nodupb (map (def_file u) defs)
  then Some (map (fun d => (d, (def_type u d, def_file u d))) defs) else None.

(* buildProperties: one go field per property *)
Definition plan_props (u : uni) (props : list runes) : option (list (runes * runes)) :=
  if nodupb (map (pascalize u) props) then Some (map (fun p => (p, pascalize u p)) props) else None.

(* ================= generator/operation.go renameTimeout ================= *)
(* the client's private timeout field is renamed until its lower-cased name is not the lower-cased go name of a parameter *)
Definition ascii_lower_s (x : runes) : runes := map (fun c => if a_upper c then (c + 32)%N else c) x.
Definition timeout_next (cur name : runes) : runes :=
  if runes_eqb cur (s "timeout") then s "requestTimeout"
  else if runes_eqb cur (s "requesttimeout") then s "httpRequestTimeout"
  else if runes_eqb cur (s "httprequesttimeout") then s "swaggerTimeout"
  else if runes_eqb cur (s "swaggertimeout") then s "operationTimeout"
  else if runes_eqb cur (s "operationtimeout") then s "opTimeout"
  else if runes_eqb cur (s "optimeout") then s "operTimeout"
  else name ++ s "1".
Fixpoint rename_timeout (fuel : nat) (seen : list runes) (name : runes) : option runes :=
  match fuel with
  | O => None
  | S f => let cur := ascii_lower_s name in
           if mem cur seen then rename_timeout f seen (timeout_next cur name) else Some name
  end.
(* paramMappings: seen = lower-cased go names of the parameters *)
Definition timeout_name (u : uni) (params : list runes) : option runes :=
  let seen := map (fun p => map (u_tolower u) (to_go_name u (prefix_for_name u) p)) params in
  rename_timeout (length params + 8) seen (s "timeout").

(* Tools/NamesLemmas.v — facts about the name-mangling model. *)
From GS Require Import Base.Str Tools.Names.
From Coq Require Import Lia.

(* ---------- file names never end in a go-build suffix ---------- *)
Lemma last_app_single {A} (l : list A) (x d : A) : last (l ++ [x]) d = x.
Proof. induction l as [|a l IH]; [reflexivity|]. cbn [app]. destruct (l ++ [x]) eqn:E; [destruct l; discriminate|]. cbn [last]. exact IH. Qed.

Lemma mangle_file_safe u name : mem (last (mangle_file_parts u name) []) build_suffixes = false.
Proof.
  unfold mangle_file_parts. destruct (mem (last (split_us (to_file_name u name) []) []) build_suffixes) eqn:E.
  - rewrite last_app_single. vm_compute. reflexivity.
  - exact E.
Qed.

(* go-swagger's table covers everything the go tool gives a meaning to *)
Lemma build_suffixes_cover : forallb (fun w => mem w build_suffixes) go_build_words = true.
Proof. vm_compute. reflexivity. Qed.

Lemma mangle_file_built u name : mem (last (mangle_file_parts u name) []) go_build_words = false.
Proof.
  destruct (mem (last (mangle_file_parts u name) []) go_build_words) eqn:E; [|reflexivity].
  apply mem_In in E. pose proof build_suffixes_cover as C. rewrite forallb_forall in C. specialize (C _ E).
  rewrite mangle_file_safe in C. discriminate.
Qed.

(* ---------- variable names are never reserved words ---------- *)
Lemma reserved_all_lower : forallb (forallb a_lower) reserved_words = true.
Proof. vm_compute. reflexivity. Qed.

Lemma var_suffix_not_reserved nm : mem (nm ++ s "Var") reserved_words = false.
Proof.
  apply mem_false. intros Hin.
  pose proof reserved_all_lower as H. rewrite forallb_forall in H. specialize (H _ Hin). rewrite forallb_forall in H.
  assert (In 86%N (nm ++ s "Var")) as HV by (apply in_or_app; right; cbn; auto).
  specialize (H _ HV). vm_compute in H. discriminate.
Qed.

Lemma mangle_var_not_reserved u name v : mangle_var_name u name = Some v -> mem v reserved_words = false.
Proof.
  unfold mangle_var_name. destruct (to_var_name u (prefix_for_name u) name) as [nm|]; [|discriminate].
  destruct (mem nm reserved_words) eqn:E; intros H; inversion H; subst; [apply var_suffix_not_reserved | exact E].
Qed.

(* ---------- the classifier agrees with Go's ASCII tables ---------- *)
Record uni_laws (u : uni) : Prop := {
  law_upper : forall c, is_ascii c = true -> u_upper u c = a_upper c;
  law_lower : forall c, is_ascii c = true -> u_lower u c = a_lower c;
  law_letter : forall c, is_ascii c = true -> u_letter u c = a_upper c || a_lower c;
  law_digit : forall c, is_ascii c = true -> u_digit u c = a_digit c;
  law_lmnpc : forall c, is_ascii c = true -> u_lmnpc u c = a_upper c || a_lower c || a_digit c || N.eqb c 95;
  law_space : forall c, is_ascii c = true -> u_space u c = a_space c;
  law_toupper : forall c, is_ascii c = true -> u_toupper u c = if a_lower c then (c - 32)%N else c;
  law_tolower : forall c, is_ascii c = true -> u_tolower u c = if a_upper c then (c + 32)%N else c;
  law_letter_lmnpc : forall c, u_letter u c = true -> u_lmnpc u c = true }.

Definition au : uni := table_uni [].

Definition tbl_wf (tbl : list (rune * uinfo)) : Prop := forall c i, lookup_info tbl c = Some i -> i_letter i = true -> i_lmnpc i = true.

Lemma table_uni_laws tbl : tbl_wf tbl -> uni_laws (table_uni tbl).
Proof.
  intros W. split; try (intros c H; cbn; unfold info_of; rewrite H; reflexivity).
  intros c H. cbn in *. unfold info_of in *. destruct (is_ascii c) eqn:A.
  - unfold ascii_info in *. cbn in *. rewrite H. reflexivity.
  - destruct (lookup_info tbl c) eqn:E; [exact (W _ _ E H)|]. cbn in H. discriminate.
Qed.

Lemma au_laws : uni_laws au.
Proof. apply table_uni_laws. intros c i H. discriminate. Qed.

Section Laws.
Variable u : uni.
Hypothesis L : uni_laws u.

Definition all_ascii (x : runes) : bool := forallb is_ascii x.

Lemma all_ascii_rev x : all_ascii x = true -> all_ascii (rev x) = true.
Proof. unfold all_ascii. rewrite !forallb_forall. intros H c Hc. apply H. apply in_rev. exact Hc. Qed.

Lemma trim_l_ascii x : all_ascii x = true -> trim_l u x = trim_l au x.
Proof.
  induction x as [|c r IH]; [reflexivity|]. cbn [all_ascii forallb]. intros H. apply andb_prop in H as [Hc Hr].
  cbn [trim_l]. rewrite (law_space u L c Hc), (law_space au au_laws c Hc). destruct (a_space c); [apply IH; exact Hr | reflexivity].
Qed.

Lemma trim_l_incl (v : uni) x : incl (trim_l v x) x.
Proof. induction x as [|c r IH]; [apply incl_refl|]. cbn [trim_l]. destruct (u_space v c); [apply incl_tl; exact IH | apply incl_refl]. Qed.

Lemma all_ascii_incl x y : incl x y -> all_ascii y = true -> all_ascii x = true.
Proof. unfold all_ascii. rewrite !forallb_forall. intros I H c Hc. apply H, I, Hc. Qed.

Lemma trim_sp_ascii x : all_ascii x = true -> trim_sp u x = trim_sp au x.
Proof.
  intros H. unfold trim_sp. rewrite (trim_l_ascii x H).
  rewrite (trim_l_ascii (rev (trim_l au x))); [reflexivity|].
  apply all_ascii_rev. apply (all_ascii_incl _ x); [apply trim_l_incl | exact H].
Qed.

Lemma trim_sp_incl (v : uni) x : incl (trim_sp v x) x.
Proof.
  unfold trim_sp. intros c Hc. apply in_rev in Hc. apply trim_l_incl in Hc. apply in_rev in Hc. apply trim_l_incl in Hc. exact Hc.
Qed.

Lemma map_ascii (f g : rune -> rune) x : (forall c, is_ascii c = true -> f c = g c) -> all_ascii x = true -> map f x = map g x.
Proof.
  intros E. induction x as [|c r IH]; [reflexivity|]. cbn [all_ascii forallb map]. intros H. apply andb_prop in H as [Hc Hr].
  rewrite (E c Hc). f_equal. apply IH. exact Hr.
Qed.

Lemma upper_s_ascii x : all_ascii x = true -> upper_s u x = upper_s au x.
Proof.
  intros H. unfold upper_s. rewrite (trim_sp_ascii x H). apply map_ascii.
  - intros c Hc. rewrite (law_toupper u L c Hc), (law_toupper au au_laws c Hc). reflexivity.
  - apply (all_ascii_incl _ x); [apply trim_sp_incl | exact H].
Qed.

Lemma lower_s_ascii x : all_ascii x = true -> lower_s u x = lower_s au x.
Proof.
  intros H. unfold lower_s. rewrite (trim_sp_ascii x H). apply map_ascii.
  - intros c Hc. rewrite (law_tolower u L c Hc), (law_tolower au au_laws c Hc). reflexivity.
  - apply (all_ascii_incl _ x); [apply trim_sp_incl | exact H].
Qed.

End Laws.

(* ---------- where the runes of a mangled name come from ---------- *)
Definition ascii_alnum (c : rune) : bool := a_upper c || a_lower c || a_digit c.
Definition replace_words : list runes := [s "At "; s "And "; s "Pipe "; s "Dollar "; s "Bang "].

Lemma replace_word_in r w : replace_word r = Some w -> w = [] \/ In w replace_words.
Proof.
  unfold replace_word, replace_words.
  repeat match goal with |- context [if ?b then _ else _] => destruct b end; intros H; inversion H; subst; cbn; auto 10.
Qed.

Section Prov.
Variable u : uni.
Hypothesis L : uni_laws u.
Variable name : runes.

Definition from_n (c : rune) : Prop := In c name /\ u_lmnpc u c = true.
Definition word_ok (o : runes) : Prop := (o <> [] /\ Forall from_n o) \/ In o replace_words.
Definition lex_ok (l : lexem) : Prop := match l with Casual o => word_ok o | Init _ m => In m initialisms end.

Lemma find_initialism_in l orig i : find_initialism u l orig = Some i -> In i l.
Proof.
  induction l as [|a l IH]; [discriminate|]. cbn [find_initialism].
  destruct (equal_fold_ignore_space u (upper_s u a) orig); intros H; [inversion H; left; reflexivity | right; apply IH; exact H].
Qed.

Lemma name_lexem_ok post o : word_ok o -> lex_ok (name_lexem u post o).
Proof.
  intros H. unfold name_lexem. destruct post; [|exact H].
  destruct (find_initialism u initialisms o) eqn:E; [cbn; apply (find_initialism_in _ _ _ E) | exact H].
Qed.

Lemma flush_ok post cur : Forall from_n cur -> Forall lex_ok (flush u post cur).
Proof.
  intros H. unfold flush. destruct cur as [|c r]; [constructor|]. constructor; [|constructor].
  apply name_lexem_ok. left. split.
  - cbn [rev]. intros E. apply app_eq_nil in E as [_ E]. discriminate.
  - apply Forall_rev. exact H.
Qed.

Lemma casual_ok post x : (forall r, In r x -> In r name) -> forall cur, Forall from_n cur -> Forall lex_ok (casual u post x cur).
Proof.
  induction x as [|r rest IH]; intros Hin cur Hcur; cbn [casual]; [apply flush_ok; exact Hcur|].
  assert (forall r', In r' rest -> In r' name) as Hrest by (intros r' H'; apply Hin; right; exact H').
  destruct (replace_word r) as [w|] eqn:RW.
  - apply Forall_app; split; [apply flush_ok; exact Hcur|]. apply Forall_app; split; [|apply IH; [exact Hrest|constructor]].
    destruct w as [|c w']; [constructor|]. constructor; [|constructor]. apply name_lexem_ok. right.
    destruct (replace_word_in _ _ RW) as [E|E]; [discriminate | exact E].
  - destruct (u_lmnpc u r) eqn:LM; cbn [negb].
    + destruct (u_upper u r).
      * apply Forall_app; split; [apply flush_ok; exact Hcur|]. apply IH; [exact Hrest|]. constructor; [|constructor]. split; [apply Hin; left; reflexivity | exact LM].
      * apply IH; [exact Hrest|]. constructor; [|exact Hcur]. split; [apply Hin; left; reflexivity | exact LM].
    + apply Forall_app; split; [apply flush_ok; exact Hcur|]. apply IH; [exact Hrest|constructor].
Qed.

Definition bodies_ok (ms : list imatch) : Prop := Forall (fun m => In (m_body m) initialisms) ms.

Lemma advance_ok pos cur next m : In (m_body m) initialisms -> bodies_ok (advance u pos cur next m).
Proof.
  intros H. unfold advance, bodies_ok.
  destruct (m_complete m); [constructor; [exact H|constructor]|].
  destruct (negb _); [constructor|].
  destruct (Nat.eqb _ _); [|constructor; [exact H|constructor]].
  destruct next as [n|]; [destruct (u_lower u n); [constructor|]|]; (constructor; [cbn [m_body]; exact H|constructor]).
Qed.

Lemma new_matches_ok pos cur : bodies_ok (new_matches pos cur).
Proof.
  unfold new_matches, bodies_ok. apply Forall_forall. intros m Hm. apply in_map_iff in Hm as [i [E Hi]]. subst m. cbn.
  apply filter_In in Hi as [Hi _]. exact Hi.
Qed.

Lemma gather_ok x : forall pos ms, bodies_ok ms -> bodies_ok (gather u x pos ms).
Proof.
  induction x as [|c r IH]; intros pos ms H; cbn [gather]; [exact H|]. apply IH. apply Forall_app; split; [|apply new_matches_ok].
  apply Forall_forall. intros m Hm. apply in_flat_map in Hm as [m0 [Hm0 Hm]].
  pose proof (advance_ok pos c (hd_error r) m0) as A. unfold bodies_ok in *. rewrite Forall_forall in H, A. apply A; [apply H; exact Hm0 | exact Hm].
Qed.

Lemma in_firstn {A} n (l : list A) x : In x (firstn n l) -> In x l.
Proof. revert l; induction n as [|n IH]; intros [|a l] H; cbn in *; try contradiction. destruct H as [H|H]; [left; exact H | right; apply IH; exact H]. Qed.
Lemma in_skipn {A} n (l : list A) x : In x (skipn n l) -> In x l.
Proof. revert l; induction n as [|n IH]; intros [|a l] H; cbn in *; try contradiction; auto. Qed.

Lemma map_matches_ok post ms : bodies_ok ms -> forall last, Forall lex_ok (fst (map_matches u post name ms last)).
Proof.
  induction ms as [|m rest IH]; intros H last; cbn [map_matches]; [constructor|].
  inversion H as [|? ? Hm Hrest]; subst.
  destruct (negb (m_complete m)); [apply IH; exact Hrest|].
  destruct last as [l|].
  - destruct (Nat.leb (m_start m) (m_end l)); [apply IH; exact Hrest|].
    specialize (IH Hrest (Some m)). destruct (map_matches u post name rest (Some m)) as [ls l']. cbn [fst] in *.
    apply Forall_app; split.
    + apply casual_ok; [|constructor]. unfold slice. intros r Hr. apply in_firstn in Hr. apply in_skipn in Hr. exact Hr.
    + constructor; [exact Hm | exact IH].
  - specialize (IH Hrest (Some m)). destruct (map_matches u post name rest (Some m)) as [ls l']. cbn [fst] in *.
    apply Forall_app; split.
    + apply casual_ok; [|constructor]. intros r Hr. apply in_firstn in Hr. exact Hr.
    + constructor; [exact Hm | exact IH].
Qed.

Lemma split_ok post : Forall lex_ok (split u post name).
Proof.
  unfold split. destruct name as [|r0 rest] eqn:EN; [constructor|]. rewrite <- EN.
  pose proof (map_matches_ok post (gather u name 0 []) (gather_ok name 0 [] (Forall_nil _)) None) as H.
  destruct (map_matches u post name (gather u name 0 []) None) as [ls last]. cbn [fst] in H.
  destruct last as [l|].
  - destruct (Nat.eqb _ _); [exact H|]. apply Forall_app; split; [exact H|]. apply casual_ok; [|constructor]. intros r Hr. apply in_skipn in Hr. exact Hr.
  - apply casual_ok; [|constructor]. auto.
Qed.

(* the runes a lexem contributes *)
Definition good (c : rune) : Prop := ascii_alnum c = true \/ exists r, from_n r /\ (c = r \/ c = u_toupper u r \/ c = u_tolower u r).

Lemma initialisms_ascii : forallb all_ascii initialisms = true.
Proof. vm_compute. reflexivity. Qed.
Lemma initialisms_upper_alnum : forallb (fun i => forallb ascii_alnum (upper_s au i)) initialisms = true.
Proof. vm_compute. reflexivity. Qed.

Lemma alnum_good x : forallb ascii_alnum x = true -> Forall good x.
Proof. intros H. apply Forall_forall. intros c Hc. left. rewrite forallb_forall in H. apply H, Hc. Qed.

Lemma go_part_good l : lex_ok l -> Forall good (go_part u l).
Proof.
  destruct l as [o|o m]; cbn [lex_ok go_part lex_is_init unsafe_go_name].
  - intros [[Hne Hf]|Hw].
    + destruct o as [|c [|c2 r]]; [contradiction| |].
      * inversion Hf as [|? ? Hc _]; subst. destruct (is_ascii c); (constructor; [right; exists c; auto | constructor]).
      * inversion Hf as [|? ? Hc Hr]; subst. constructor; [right; exists c; auto|].
        unfold lower_s. apply Forall_forall. intros x Hx. apply in_map_iff in Hx as [y [E Hy]]. subst x.
        apply trim_sp_incl in Hy. rewrite Forall_forall in Hr. right. exists y. split; [apply Hr, Hy | auto].
    + assert (forall c rest, all_ascii (c :: rest) = true -> forallb ascii_alnum ((if a_lower c then (c - 32)%N else c) :: lower_s au rest) = true ->
              Forall good (u_toupper u c :: lower_s u rest)) as K.
      { intros c rest A G. cbn [all_ascii forallb] in A. apply andb_prop in A as [Ac Ar].
        rewrite (law_toupper u L c Ac), (lower_s_ascii u L rest Ar). apply alnum_good. exact G. }
      unfold replace_words in Hw. cbn [In] in Hw.
      destruct Hw as [E|[E|[E|[E|[E|[]]]]]]; subst o; cbn [s]; apply K; vm_compute; reflexivity.
  - intros Hm. pose proof initialisms_ascii as A. pose proof initialisms_upper_alnum as B.
    rewrite forallb_forall in A, B. rewrite (upper_s_ascii u L m (A _ Hm)). apply alnum_good. apply (B _ Hm).
Qed.

Theorem to_go_name_runes pfx : Forall (fun c => good c \/ In c (pfx name)) (to_go_name u pfx name).
Proof.
  unfold to_go_name. pose proof (split_ok true) as S. destruct (split u true name) as [|l0 ls]; [constructor|].
  inversion S as [|? ? H0 Hls]; subst.
  assert (Forall (fun c => good c \/ In c (pfx name)) (flat_map (go_part u) ls)) as T.
  { apply Forall_forall. intros c Hc. apply in_flat_map in Hc as [l [Hl Hc]]. left.
    rewrite Forall_forall in Hls. pose proof (go_part_good l (Hls _ Hl)) as G. rewrite Forall_forall in G. apply G, Hc. }
  pose proof (go_part_good l0 H0) as G0.
  assert (Forall (fun c => good c \/ In c (pfx name)) (go_part u l0)) as G0'.
  { apply Forall_forall. intros c Hc. left. rewrite Forall_forall in G0. apply G0, Hc. }
  assert (Forall (fun c => good c \/ In c (pfx name)) (pfx name ++ go_part u l0)) as P.
  { apply Forall_app; split; [|exact G0']. apply Forall_forall. intros c Hc. right. exact Hc. }
  apply Forall_app; split; [|exact T].
  destruct (go_part u l0) as [|c r] eqn:E; [constructor|].
  destruct (is_ascii c) eqn:A.
  - destruct (a_upper c) eqn:U; [exact G0'|]. destruct (a_lower c) eqn:Lo; [|exact P].
    inversion G0' as [|? ? _ Hr]; subst. constructor; [|exact Hr]. left. left.
    unfold ascii_alnum, a_upper, a_lower in *. apply andb_prop in Lo as [L1 L2]. apply N.leb_le in L1. apply N.leb_le in L2.
    assert (N.leb 65 (c - 32) = true) as X1 by (apply N.leb_le; lia). assert (N.leb (c - 32) 90 = true) as X2 by (apply N.leb_le; lia).
    rewrite X1, X2. reflexivity.
  - destruct (negb (u_letter u c)); [exact P|]. destruct (negb (u_upper u c)); [exact P | exact G0'].
Qed.

End Prov.

(* ---------- mangled names are made of identifier characters ---------- *)
Definition case_closed (u : uni) : Prop :=
  forall r, ident_char u r = true -> ident_char u (u_toupper u r) = true /\ ident_char u (u_tolower u r) = true.
(* no combining mark, letter-number, other-number or connector punctuation other than _ in the name *)
Definition ident_name (u : uni) (name : runes) : Prop := forall r, In r name -> u_lmnpc u r = true -> ident_char u r = true.

Lemma alnum_is_ascii c : ascii_alnum c = true -> is_ascii c = true.
Proof.
  unfold ascii_alnum, a_upper, a_lower, a_digit, is_ascii. intros H. apply N.ltb_lt.
  repeat (apply orb_prop in H as [H|H]); apply andb_prop in H as [_ H]; apply N.leb_le in H; lia.
Qed.

Lemma alnum_ident u : uni_laws u -> forall c, ascii_alnum c = true -> ident_char u c = true.
Proof.
  intros L c H. pose proof (alnum_is_ascii c H) as A. unfold ident_char. rewrite (law_letter u L c A), (law_digit u L c A).
  unfold ascii_alnum in H. destruct (a_upper c), (a_lower c), (a_digit c); cbn in *; try reflexivity; discriminate.
Qed.

Lemma prefix_for_name_alnum u name : forallb ascii_alnum (prefix_for_name u name) = true.
Proof.
  unfold prefix_for_name. destruct name as [|c r]; [reflexivity|].
  repeat match goal with |- context [if ?b then _ else _] => destruct b end; reflexivity.
Qed.

Theorem to_go_name_ident_chars u name :
  uni_laws u -> case_closed u -> ident_name u name -> forallb (ident_char u) (to_go_name u (prefix_for_name u) name) = true.
Proof.
  intros L C I. apply forallb_forall. intros c Hc.
  pose proof (to_go_name_runes u L name (prefix_for_name u)) as T. rewrite Forall_forall in T. destruct (T c Hc) as [[G|[r [[Hr Hl] E]]]|P].
  - apply alnum_ident; assumption.
  - pose proof (I r Hr Hl) as Ir. destruct (C r Ir) as [Cu Cl]. destruct E as [E|[E|E]]; subst c; assumption.
  - apply alnum_ident; [exact L|]. pose proof (prefix_for_name_alnum u name) as A. rewrite forallb_forall in A. apply A, P.
Qed.

Lemma ident_chars_ident_name u x : forallb (ident_char u) x = true -> ident_name u x.
Proof. intros H r Hr _. rewrite forallb_forall in H. apply H, Hr. Qed.

Theorem pascalize_ident_chars u name :
  uni_laws u -> case_closed u -> ident_name u name -> forallb (ident_char u) (pascalize u name) = true.
Proof.
  intros L C I.
  assert (forallb (ident_char u) (to_go_name u (prefix_for_name u) (to_go_name u (prefix_for_name u) name)) = true) as T.
  { apply to_go_name_ident_chars; try assumption. apply ident_chars_ident_name. apply to_go_name_ident_chars; assumption. }
  assert (forall x, forallb ascii_alnum x = true -> forallb (ident_char u) x = true) as K.
  { intros x H. apply forallb_forall. intros c Hc. apply alnum_ident; [exact L|]. rewrite forallb_forall in H. apply H, Hc. }
  unfold pascalize. destruct name as [|c [|c2 r]]; [apply K; reflexivity | | exact T].
  destruct (special_single c); [apply K, prefix_for_name_alnum | exact T].
Qed.

(* ---------- the first rune of a mangled name ---------- *)
Lemma hd_rev_last {A} (l : list A) d : hd d (rev l) = last l d.
Proof.
  induction l as [|a l IH]; [reflexivity|]. cbn [rev]. destruct l as [|b l']; [reflexivity|].
  change (last (a :: b :: l') d) with (last (b :: l') d). rewrite <- IH.
  cbn [rev]. destruct (rev l') as [|x xs]; reflexivity.
Qed.

Section Head.
Variable u : uni.
Hypothesis L : uni_laws u.

(* the first lexem of a casual run that already holds a segment starts with the first rune of that segment *)
Lemma casual_head post x : forall cur, cur <> [] ->
  exists w ls, casual u post x cur = name_lexem u post w :: ls /\ hd 0%N w = last cur 0%N /\ w <> [].
Proof.
  assert (forall cur rest', cur <> [] -> exists w ls, flush u post cur ++ rest' = name_lexem u post w :: ls /\ hd 0%N w = last cur 0%N /\ w <> []) as F.
  { intros cur rest' H. destruct cur as [|c r]; [contradiction|]. unfold flush. eexists; eexists. split; [reflexivity|]. split; [apply hd_rev_last|].
    cbn [rev]. intros E. apply app_eq_nil in E as [_ E]. discriminate. }
  induction x as [|r rest IH]; intros cur Hc; cbn [casual].
  - destruct (F cur [] Hc) as [w [ls [E H]]]. rewrite app_nil_r in E. eauto.
  - destruct (replace_word r); [apply F; exact Hc|].
    destruct (negb (u_lmnpc u r)); [apply F; exact Hc|].
    destruct (u_upper u r); [apply F; exact Hc|].
    destruct (IH (r :: cur)) as [w [ls [E [H1 H2]]]]; [discriminate|]. exists w, ls. split; [exact E|]. split; [|exact H2].
    rewrite H1. destruct cur; [contradiction|reflexivity].
Qed.

Lemma letter_not_replaced r : u_letter u r = true -> replace_word r = None.
Proof.
  intros H. unfold replace_word.
  repeat match goal with |- context [N.eqb r ?k] => destruct (N.eqb_spec r k) as [E|_]; [subst r; rewrite (law_letter u L) in H by reflexivity; discriminate|] end.
  reflexivity.
Qed.

Lemma casual_starts post r0 rest : u_letter u r0 = true ->
  exists w ls, casual u post (r0 :: rest) [] = name_lexem u post w :: ls /\ hd 0%N w = r0 /\ w <> [].
Proof.
  intros H. cbn [casual]. rewrite (letter_not_replaced r0 H), (law_letter_lmnpc u L r0 H). cbn [negb flush app].
  assert (exists w ls, casual u post rest [r0] = name_lexem u post w :: ls /\ hd 0%N w = last [r0] 0%N /\ w <> []) as K by (apply casual_head; discriminate).
  destruct (u_upper u r0); exact K.
Qed.

(* with no match accepted yet, the lexems start with the text before the first complete match, then that match *)
Lemma map_matches_first post name ms : forall ls l, map_matches u post name ms None = (ls, Some l) ->
  exists m tl, In (m_body m) (map m_body ms) /\ ls = casual u post (firstn (m_start m) name) [] ++ Init (m_body m) (m_body m) :: tl.
Proof.
  induction ms as [|m rest IH]; intros ls l H; cbn [map_matches] in H; [inversion H|].
  destruct (negb (m_complete m)).
  - destruct (IH _ _ H) as [m' [tl [Hin E]]]. exists m', tl. split; [right; exact Hin | exact E].
  - destruct (map_matches u post name rest (Some m)) as [ls' l'] eqn:E. inversion H; subst. exists m, ls'. split; [left; reflexivity | reflexivity].
Qed.

Lemma map_matches_none post name ms : forall ls, map_matches u post name ms None = (ls, None) -> ls = [].
Proof.
  induction ms as [|m rest IH]; intros ls H; cbn [map_matches] in H; [inversion H; reflexivity|].
  destruct (negb (m_complete m)); [apply IH; exact H|].
  destruct (map_matches u post name rest (Some m)) as [ls' l'] eqn:E. inversion H; subst.
  (* once a match is accepted, the last accepted match is never None again *)
  exfalso. clear - E. revert m ls' E. induction rest as [|m2 r2 IH2]; intros m ls' E; cbn [map_matches] in E; [inversion E|].
  destruct (negb (m_complete m2)); [apply (IH2 _ _ E)|].
  destruct (Nat.leb (m_start m2) (m_end m)); [apply (IH2 _ _ E)|].
  destruct (map_matches u post name r2 (Some m2)) as [a b] eqn:E2. inversion E; subst. apply (IH2 _ _ E2).
Qed.

(* what the first lexem of a name starting with a letter looks like *)
Definition first_lexem_shape (r0 : rune) (l : lexem) : Prop :=
  match l with
  | Init _ m => In m initialisms
  | Casual w => hd 0%N w = r0 /\ w <> []
  end.

Lemma name_lexem_shape post r0 w : hd 0%N w = r0 -> w <> [] -> first_lexem_shape r0 (name_lexem u post w).
Proof.
  intros H1 H2. unfold name_lexem. destruct post; [|split; assumption].
  destruct (find_initialism u initialisms w) eqn:E; [cbn; apply (find_initialism_in u _ _ _ E) | split; assumption].
Qed.

Lemma split_first post r0 rest : u_letter u r0 = true ->
  exists l0 ls, split u post (r0 :: rest) = l0 :: ls /\ first_lexem_shape r0 l0.
Proof.
  intros H. unfold split.
  pose proof (gather_ok u (r0 :: rest) 0 [] (Forall_nil _)) as B.
  destruct (map_matches u post (r0 :: rest) (gather u (r0 :: rest) 0 []) None) as [ls last] eqn:E.
  destruct last as [l|].
  - destruct (map_matches_first _ _ _ _ _ E) as [m [tl [Hin Els]]].
    assert (In (m_body m) initialisms) as Hb.
    { apply in_map_iff in Hin as [m' [Em Hm']]. rewrite <- Em. unfold bodies_ok in B. rewrite Forall_forall in B. apply B, Hm'. }
    assert (exists l0 ls0, ls = l0 :: ls0 /\ first_lexem_shape r0 l0) as K.
    { subst ls. destruct (m_start m) as [|k].
      - cbn [firstn casual flush app]. eexists; eexists. split; [reflexivity|]. exact Hb.
      - cbn [firstn]. destruct (casual_starts post r0 (firstn k rest) H) as [w [ls0 [Ec [H1 H2]]]]. rewrite Ec. cbn [app].
        eexists; eexists. split; [reflexivity|]. apply name_lexem_shape; assumption. }
    destruct K as [l0 [ls0 [Els0 Sh]]]. rewrite Els0.
    destruct (Nat.eqb _ _); [exists l0, ls0 | exists l0, (ls0 ++ casual u post (skipn (S (m_end l)) (r0 :: rest)) [])]; (split; [reflexivity | exact Sh]).
  - destruct (casual_starts post r0 rest H) as [w [ls0 [Ec [H1 H2]]]]. rewrite Ec. eexists; eexists. split; [reflexivity|]. apply name_lexem_shape; assumption.
Qed.

(* letters have an upper-case form that is an upper-case letter (false of caseless scripts: the theorem excludes them) *)
Definition cased (r : rune) : Prop := u_upper u (u_toupper u r) = true /\ u_letter u (u_toupper u r) = true.

Lemma initialisms_head_upper : forallb (fun i => match upper_s au i with c :: _ => a_upper c | [] => false end) initialisms = true.
Proof. vm_compute. reflexivity. Qed.

Lemma a_upper_ascii c : a_upper c = true -> is_ascii c = true.
Proof. unfold a_upper, is_ascii. intros H. apply andb_prop in H as [_ H]. apply N.leb_le in H. apply N.ltb_lt. lia. Qed.
Lemma a_lower_ascii c : a_lower c = true -> is_ascii c = true.
Proof. unfold a_lower, is_ascii. intros H. apply andb_prop in H as [_ H]. apply N.leb_le in H. apply N.ltb_lt. lia. Qed.
Lemma lower_to_upper c : a_lower c = true -> a_upper (c - 32)%N = true.
Proof.
  unfold a_lower, a_upper. intros H. apply andb_prop in H as [H1 H2]. apply N.leb_le in H1. apply N.leb_le in H2.
  apply andb_true_intro; split; apply N.leb_le; lia.
Qed.

Theorem to_go_name_exported pfx r0 rest : u_letter u r0 = true -> cased r0 ->
  exists c tl, to_go_name u pfx (r0 :: rest) = c :: tl /\ u_upper u c = true /\ u_letter u c = true.
Proof.
  intros Hl [Cu Cl]. unfold to_go_name. destruct (split_first true r0 rest Hl) as [l0 [ls [E Sh]]]. rewrite E.
  assert (exists c tl, go_part u l0 = c :: tl /\ ((u_upper u c = true /\ u_letter u c = true) \/ (is_ascii c = true /\ (a_upper c || a_lower c = true)))) as G.
  { destruct l0 as [w|o m]; cbn [first_lexem_shape] in Sh; cbn [go_part lex_is_init unsafe_go_name].
    - destruct Sh as [H1 H2]. destruct w as [|c [|c2 r]]; [contradiction| |]; cbn [hd] in H1; subst c.
      + destruct (is_ascii r0) eqn:A.
        * eexists; eexists. split; [reflexivity|]. right. split; [exact A|]. rewrite <- (law_letter u L r0 A). exact Hl.
        * eexists; eexists. split; [reflexivity|]. left. split; assumption.
      + eexists; eexists. split; [reflexivity|]. left. split; assumption.
    - pose proof initialisms_ascii as A. pose proof initialisms_head_upper as B. rewrite forallb_forall in A, B.
      rewrite (upper_s_ascii u L m (A _ Sh)). specialize (B _ Sh). destruct (upper_s au m) as [|c tl]; [discriminate|].
      eexists; eexists. split; [reflexivity|]. right. split; [apply a_upper_ascii; exact B | rewrite B; reflexivity]. }
  destruct G as [c [tl [Eg Hc]]]. rewrite Eg.
  destruct Hc as [[Hu Hlet]|[A Hal]].
  - destruct (is_ascii c) eqn:A.
    + rewrite (law_upper u L c A) in Hu. rewrite Hu. cbn [app]. eexists; eexists. split; [reflexivity|]. rewrite (law_upper u L c A). split; [exact Hu | exact Hlet].
    + rewrite Hlet, Hu. cbn [negb app]. eexists; eexists. split; [reflexivity | split; [exact Hu | exact Hlet]].
  - rewrite A. destruct (a_upper c) eqn:U.
    + cbn [app]. eexists; eexists. split; [reflexivity|]. rewrite (law_upper u L c A), (law_letter u L c A), U. split; reflexivity.
    + cbn [orb] in Hal. rewrite Hal. cbn [app]. eexists; eexists. split; [reflexivity|].
      pose proof (lower_to_upper c Hal) as X. pose proof (a_upper_ascii _ X) as AX. rewrite (law_upper u L _ AX), (law_letter u L _ AX), X. split; reflexivity.
Qed.

(* ---- names that contain a letter but do not start with one ---- *)
Lemma casual_nonempty post x : forall cur, (exists r, In r x /\ u_letter u r = true) \/ cur <> [] -> casual u post x cur <> [].
Proof.
  assert (forall cur rest', cur <> [] -> flush u post cur ++ rest' <> []) as F.
  { intros cur rest' H. destruct cur; [contradiction|]. unfold flush. discriminate. }
  assert (forall (a b : list lexem), b <> [] -> a ++ b <> []) as AP.
  { intros a b H E. apply app_eq_nil in E as [_ E]. contradiction. }
  induction x as [|r rest IH]; intros cur H; cbn [casual].
  - destruct H as [[r [[] _]]|H]. pose proof (F cur [] H) as K. rewrite app_nil_r in K. exact K.
  - destruct H as [[r' [[E|Hin] Hl]]|H].
    + subst r'. rewrite (letter_not_replaced r Hl), (law_letter_lmnpc u L r Hl). cbn [negb].
      destruct (u_upper u r); [apply AP|]; apply IH; right; discriminate.
    + assert (casual u post rest [] <> []) as K0 by (apply IH; left; exists r'; auto).
      destruct (replace_word r); [apply AP, AP, K0|]. destruct (negb (u_lmnpc u r)); [apply AP, K0|].
      destruct (u_upper u r); [apply AP|]; apply IH; left; exists r'; auto.
    + destruct (replace_word r); [apply F, H|]. destruct (negb (u_lmnpc u r)); [apply F, H|].
      destruct (u_upper u r); [apply F, H|]. apply IH. right. discriminate.
Qed.

Lemma split_nonempty post name : (exists r, In r name /\ u_letter u r = true) -> split u post name <> [].
Proof.
  intros H. unfold split. destruct name as [|r0 rest] eqn:EN; [destruct H as [r [[] _]]|]. rewrite <- EN in *.
  destruct (map_matches u post name (gather u name 0 []) None) as [ls last] eqn:E.
  destruct last as [l|].
  - destruct (map_matches_first _ _ _ _ _ E) as [m [tl [_ Els]]].
    assert (ls <> []) as K by (subst ls; intros X; apply app_eq_nil in X as [_ X]; discriminate).
    destruct (Nat.eqb _ _); [exact K|]. intros X. apply app_eq_nil in X as [X _]. contradiction.
  - apply casual_nonempty. left. exact H.
Qed.

Lemma go_part_nonempty name l : lex_ok u name l -> go_part u l <> [].
Proof.
  destruct l as [o|o m]; cbn [lex_ok go_part lex_is_init unsafe_go_name].
  - intros [[Hne _]|Hw].
    + destruct o as [|c [|c2 r]]; [contradiction| |]; [destruct (is_ascii c)|]; discriminate.
    + unfold replace_words in Hw. cbn [In] in Hw. destruct Hw as [E|[E|[E|[E|[E|[]]]]]]; subst o; cbn [s]; discriminate.
  - intros Hm. pose proof initialisms_ascii as A. pose proof initialisms_head_upper as B. rewrite forallb_forall in A, B.
    rewrite (upper_s_ascii u L m (A _ Hm)). specialize (B _ Hm). destruct (upper_s au m); [discriminate B | discriminate].
Qed.

Theorem to_go_name_exported_nonletter r0 rest :
  u_letter u r0 = false -> (exists r, In r (r0 :: rest) /\ u_letter u r = true) ->
  exists c tl, to_go_name u (prefix_for_name u) (r0 :: rest) = c :: tl /\ u_upper u c = true /\ u_letter u c = true.
Proof.
  intros Hn Hex. unfold to_go_name. pose proof (split_nonempty true _ Hex) as NE. pose proof (split_ok u (r0 :: rest) true) as OK.
  destruct (split u true (r0 :: rest)) as [|l0 ls]; [contradiction|]. inversion OK as [|? ? H0 _]; subst.
  pose proof (go_part_nonempty _ l0 H0) as G. destruct (go_part u l0) as [|c tl]; [contradiction|].
  assert (exists p ptl, prefix_for_name u (r0 :: rest) = p :: ptl /\ a_upper p = true) as P.
  { unfold prefix_for_name. rewrite Hn.
    repeat match goal with |- context [if ?b then _ else _] => destruct b end; eexists; eexists; (split; [reflexivity|reflexivity]). }
  destruct P as [p [ptl [EP UP]]].
  assert (exists c' tl', (prefix_for_name u (r0 :: rest) ++ c :: tl) ++ flat_map (go_part u) ls = c' :: tl' /\ u_upper u c' = true /\ u_letter u c' = true) as PX.
  { rewrite EP. cbn [app]. eexists; eexists. split; [reflexivity|]. pose proof (a_upper_ascii _ UP) as AP.
    rewrite (law_upper u L p AP), (law_letter u L p AP), UP. split; reflexivity. }
  destruct (is_ascii c) eqn:A.
  - destruct (a_upper c) eqn:U.
    + cbn [app]. eexists; eexists. split; [reflexivity|]. rewrite (law_upper u L c A), (law_letter u L c A), U. split; reflexivity.
    + destruct (a_lower c) eqn:Lo; [|exact PX]. cbn [app]. eexists; eexists. split; [reflexivity|].
      pose proof (lower_to_upper c Lo) as X. pose proof (a_upper_ascii _ X) as AX. rewrite (law_upper u L _ AX), (law_letter u L _ AX), X. split; reflexivity.
  - destruct (u_letter u c) eqn:Lc; cbn [negb]; [|exact PX]. destruct (u_upper u c) eqn:Uc; cbn [negb]; [|exact PX].
    cbn [app]. eexists; eexists. split; [reflexivity|]. split; assumption.
Qed.

End Head.

(* ---------- pascalize yields an exported Go identifier ---------- *)
Definition upper_fixed (u : uni) : Prop := forall c, u_upper u c = true -> u_toupper u c = c.

Theorem pascalize_exported u name :
  uni_laws u -> upper_fixed u ->
  (exists r, In r name /\ u_letter u r = true) ->
  (forall r0 rest, name = r0 :: rest -> u_letter u r0 = true -> cased u r0) ->
  exists c tl, pascalize u name = c :: tl /\ u_upper u c = true /\ u_letter u c = true.
Proof.
  intros L UF Hex Hc.
  assert (exists c tl, to_go_name u (prefix_for_name u) name = c :: tl /\ u_upper u c = true /\ u_letter u c = true) as P1.
  { destruct name as [|r0 rest]; [destruct Hex as [r [[] _]]|]. destruct (u_letter u r0) eqn:E.
    - apply to_go_name_exported; [exact L | exact E | apply (Hc r0 rest eq_refl E)].
    - apply to_go_name_exported_nonletter; assumption. }
  destruct P1 as [c [tl [E1 [U1 L1]]]].
  assert (exists c' tl', to_go_name u (prefix_for_name u) (to_go_name u (prefix_for_name u) name) = c' :: tl' /\ u_upper u c' = true /\ u_letter u c' = true) as P2.
  { rewrite E1. apply to_go_name_exported; [exact L | exact L1|]. unfold cased. rewrite (UF c U1). split; assumption. }
  unfold pascalize. destruct name as [|c0 [|c2 r]]; [destruct Hex as [r [[] _]] | | exact P2].
  destruct (special_single c0) eqn:S; [|exact P2]. exfalso.
  destruct Hex as [r [[E|[]] Hl]]. subst r. unfold special_single in S.
  repeat (apply orb_prop in S as [S|S]); apply N.eqb_eq in S; subst c0; rewrite (law_letter u L) in Hl by reflexivity; discriminate.
Qed.

Theorem pascalize_go_exported u name :
  uni_laws u -> case_closed u -> upper_fixed u -> ident_name u name ->
  (exists r, In r name /\ u_letter u r = true) ->
  (forall r0 rest, name = r0 :: rest -> u_letter u r0 = true -> cased u r0) ->
  go_exported u (pascalize u name) = true.
Proof.
  intros L C UF I Hex Hc. destruct (pascalize_exported u name L UF Hex Hc) as [c [tl [E [U Le]]]].
  pose proof (pascalize_ident_chars u name L C I) as IC. rewrite E in *. cbn [forallb] in IC. apply andb_prop in IC as [_ IC].
  unfold go_exported, go_ident. rewrite U, Le, IC. reflexivity.
Qed.

(* keywords start with a lower-case ASCII letter: an exported name is never one *)
Lemma exported_not_reserved u x : uni_laws u -> go_exported u x = true -> mem x reserved_words = false.
Proof.
  intros L H. apply mem_false. intros Hin. destruct x as [|c r]; [discriminate|]. unfold go_exported in H. apply andb_prop in H as [U _].
  pose proof reserved_all_lower as R. rewrite forallb_forall in R. specialize (R _ Hin). cbn [forallb] in R. apply andb_prop in R as [Lo _].
  rewrite (law_upper u L c (a_lower_ascii c Lo)) in U. unfold a_upper, a_lower in *.
  apply andb_prop in U as [_ U2]. apply andb_prop in Lo as [L1 _]. apply N.leb_le in U2. apply N.leb_le in L1. lia.
Qed.

(* ---------- C08: a successful plan gives every operation and definition a name of its own ---------- *)
Lemma nodupb_NoDup l : nodupb l = true -> NoDup l.
Proof.
  induction l as [|x r IH]; intros H; [constructor|]. cbn [nodupb] in H. apply andb_prop in H as [H1 H2].
  constructor; [|apply IH; exact H2]. apply Bool.negb_true_iff in H1. apply mem_false in H1. exact H1.
Qed.

Lemma put_op_keys k v m : NoDup (map fst m) -> NoDup (map fst (put_op k v m)) /\ (forall x, In x (map fst (put_op k v m)) <-> x = k \/ In x (map fst m)).
Proof.
  induction m as [|[k' v'] r IH]; intros H; cbn [put_op map fst].
  - split; [constructor; [intros []|constructor]|]. intros x. cbn. intuition congruence.
  - inversion H as [|? ? Hn Hr]; subst. unfold runes_eqb. destruct (str_eqb k k') eqn:E.
    + apply str_eqb_eq in E. subst k'. split; [exact H|]. intros x. cbn. intuition congruence.
    + destruct (IH Hr) as [ND IFF]. cbn [map fst]. split.
      * constructor; [|exact ND]. intros X. apply IFF in X as [X|X]; [subst k'; rewrite str_eqb_refl in E; discriminate | contradiction].
      * intros x. cbn. rewrite IFF. intuition congruence.
Qed.

Lemma gather_keys_nodup u ops : forall m, NoDup (map fst m) -> NoDup (map fst (fold_left (gather_step u) ops m)).
Proof.
  induction ops as [|o r IH]; intros m H; cbn [fold_left]; [exact H|]. apply IH. unfold gather_step. apply put_op_keys. exact H.
Qed.

Lemma NoDup_fst_inj {A} (m : list (runes * A)) k v1 v2 : NoDup (map fst m) -> In (k, v1) m -> In (k, v2) m -> v1 = v2.
Proof.
  induction m as [|[k' v'] r IH]; intros ND H1 H2; [contradiction|]. inversion ND as [|? ? Hn Hr]; subst.
  destruct H1 as [H1|H1], H2 as [H2|H2].
  - inversion H1; inversion H2; subst; reflexivity.
  - inversion H1; subst. exfalso. apply Hn. apply in_map_iff. exists (k, v2). auto.
  - inversion H2; subst. exfalso. apply Hn. apply in_map_iff. exists (k, v1). auto.
  - apply IH; assumption.
Qed.

Definition same_route (a b : opspec) : Prop := o_method a = o_method b /\ o_path a = o_path b.

(* every operation has an entry, and two operations with different routes are held under different names *)
Theorem plan_ops_own_names u ops m : plan_ops u ops = Some m ->
  (forall o, In o ops -> exists k e, In (k, e) m /\ same_route e o) /\
  NoDup (map fst m) /\ NoDup (map (fun kv => pascalize u (fst kv)) m) /\
  (forall o1 o2 k1 k2 e1 e2, In (k1, e1) m -> In (k2, e2) m -> same_route e1 o1 -> same_route e2 o2 -> ~ same_route o1 o2 ->
     k1 <> k2 /\ pascalize u k1 <> pascalize u k2).
Proof.
  unfold plan_ops. destruct (forallb _ ops && nodupb _) eqn:E; [|discriminate]. intros H. inversion H; subst m. clear H.
  apply andb_prop in E as [R D]. pose proof (gather_keys_nodup u ops [] (NoDup_nil _)) as ND. fold (gather_operations u ops) in ND.
  apply nodupb_NoDup in D. split; [|split; [exact ND | split; [exact D|]]].
  - intros o Ho. rewrite forallb_forall in R. specialize (R o Ho). unfold represented in R. apply existsb_exists in R as [[k e] [Hin Hm]].
    exists k, e. split; [exact Hin|]. cbn [snd] in Hm. apply andb_prop in Hm as [M P]. apply str_eqb_eq in M. apply str_eqb_eq in P. split; assumption.
  - intros o1 o2 k1 k2 e1 e2 H1 H2 [M1 P1] [M2 P2] Hd.
    assert (k1 <> k2) as K.
    { intros X. subst k2. pose proof (NoDup_fst_inj _ _ _ _ ND H1 H2) as X. subst e2. apply Hd. split; congruence. }
    split; [exact K|]. intros X.
    (* NoDup of the mapped list: equal images at two entries force the same entry *)
    assert (forall (l : list (runes * opspec)) a b, NoDup (map (fun kv => pascalize u (fst kv)) l) -> In a l -> In b l -> pascalize u (fst a) = pascalize u (fst b) -> a = b) as INJ.
    { induction l as [|x r IH]; intros a b N Ha Hb Eq; [contradiction|]. inversion N as [|? ? Hn Hr]; subst.
      destruct Ha as [Ha|Ha], Hb as [Hb|Hb]; subst; try reflexivity.
      - exfalso. apply Hn. rewrite Eq. apply in_map_iff. exists b. auto.
      - exfalso. apply Hn. rewrite <- Eq. apply in_map_iff. exists a. auto.
      - apply IH; assumption. }
    pose proof (INJ _ _ _ D H1 H2 X) as Y. inversion Y. contradiction.
Qed.

(* with packages: names are distinct inside each package (across all packages when [flat]) *)
Lemma nodupq_NoDup l : nodupq l = true -> NoDup l.
Proof.
  induction l as [|x r IH]; intros H; [constructor|]. cbn [nodupq] in H. apply andb_prop in H as [H1 H2].
  constructor; [|apply IH; exact H2]. intros Hin. apply Bool.negb_true_iff in H1.
  assert (existsb (qual_eqb x) r = true) as X; [|congruence].
  apply existsb_exists. exists x. split; [exact Hin|]. unfold qual_eqb, runes_eqb. rewrite !str_eqb_refl. reflexivity.
Qed.

Theorem plan_ops_pkg_own_names u pk flat ops m : plan_ops_pkg u pk flat ops = Some m ->
  (forall o, In o ops -> exists k e, In (k, e) m /\ same_route e o) /\
  NoDup (map fst m) /\
  (forall o1 o2 k1 k2 e1 e2, In (k1, e1) m -> In (k2, e2) m -> same_route e1 o1 -> same_route e2 o2 -> ~ same_route o1 o2 ->
     k1 <> k2 /\ ((flat = true \/ pkg_of pk e1 = pkg_of pk e2) -> pascalize u k1 <> pascalize u k2)).
Proof.
  unfold plan_ops_pkg. destruct (forallb _ ops && nodupq _) eqn:E; [|discriminate]. intros H. inversion H; subst m. clear H.
  apply andb_prop in E as [R D]. pose proof (gather_keys_nodup u ops [] (NoDup_nil _)) as ND. fold (gather_operations u ops) in ND.
  apply nodupq_NoDup in D. split; [|split; [exact ND|]].
  - intros o Ho. rewrite forallb_forall in R. specialize (R o Ho). unfold represented in R. apply existsb_exists in R as [[k e] [Hin Hm]].
    exists k, e. split; [exact Hin|]. cbn [snd] in Hm. apply andb_prop in Hm as [M P]. apply str_eqb_eq in M. apply str_eqb_eq in P. split; assumption.
  - intros o1 o2 k1 k2 e1 e2 H1 H2 [M1 P1] [M2 P2] Hd.
    assert (k1 <> k2) as K.
    { intros X. subst k2. pose proof (NoDup_fst_inj _ _ _ _ ND H1 H2) as X. subst e2. apply Hd. split; congruence. }
    split; [exact K|]. intros Hp X.
    assert (forall (l : list (runes * opspec)) a b, NoDup (map (qualified u pk flat) l) -> In a l -> In b l -> qualified u pk flat a = qualified u pk flat b -> a = b) as INJ.
    { induction l as [|x r IH]; intros a b N Ha Hb Eq; [contradiction|]. inversion N as [|? ? Hn Hr]; subst.
      destruct Ha as [Ha|Ha], Hb as [Hb|Hb]; subst; try reflexivity.
      - exfalso. apply Hn. rewrite Eq. apply in_map_iff. exists b. auto.
      - exfalso. apply Hn. rewrite <- Eq. apply in_map_iff. exists a. auto.
      - apply IH; assumption. }
    assert (qualified u pk flat (k1, e1) = qualified u pk flat (k2, e2)) as Q.
    { unfold qualified. cbn [fst snd]. rewrite X. destruct flat; [reflexivity|]. destruct Hp as [Hp|Hp]; [discriminate | rewrite Hp; reflexivity]. }
    pose proof (INJ _ _ _ D H1 H2 Q) as Y. inversion Y. contradiction.
Qed.

Theorem plan_defs_own_names u defs p : plan_defs u defs = Some p ->
  map fst p = defs /\ NoDup (map (def_type u) defs) /\ NoDup (map (def_file u) defs).
Proof.
  unfold plan_defs. destruct (nodupb _ && nodupb _) eqn:E; [|discriminate]. intros H. inversion H; subst p. apply andb_prop in E as [A B].
  split; [rewrite map_map; cbn; apply map_id|]. split; apply nodupb_NoDup; assumption.
Qed.

Theorem plan_props_own_names u props p : plan_props u props = Some p -> map fst p = props /\ NoDup (map (pascalize u) props).
Proof.
  unfold plan_props. destruct (nodupb _) eqn:E; [|discriminate]. intros H. inversion H; subst p.
  split; [rewrite map_map; cbn; apply map_id | apply nodupb_NoDup; exact E].
Qed.

(* the collisions the property is about are real: distinct names, same mangled name (evaluated on the model) *)
Example collision_defs : plan_defs au [s "a-b"; s "a_b"] = None /\ plan_defs au [s "a-b"; s "ab2"] <> None.
Proof. split; vm_compute; [reflexivity | discriminate]. Qed.
Example collision_ops :
  plan_ops au [{| o_method := s "GET"; o_path := s "/a-b"; o_id := [] |}; {| o_method := s "GET"; o_path := s "/a_b"; o_id := [] |}] = None.
Proof. vm_compute. reflexivity. Qed.

(* ---------- renameTimeout ---------- *)
Lemma rename_timeout_fresh fuel : forall seen name r, rename_timeout fuel seen name = Some r -> mem (ascii_lower_s r) seen = false.
Proof.
  induction fuel as [|f IH]; intros seen name r H; [discriminate|]. cbn [rename_timeout] in H.
  destruct (mem (ascii_lower_s name) seen) eqn:E; [apply (IH _ _ _ H)|]. inversion H; subst. exact E.
Qed.

(* it always finds a name: past the six fixed candidates every candidate is one rune longer, and a candidate longer than
   every seen name is fresh *)
Definition maxlen (l : list runes) : nat := fold_right (fun x m => Nat.max (length x) m) 0 l.
Lemma mem_length_le x l : mem x l = true -> length x <= maxlen l.
Proof.
  induction l as [|a l IH]; [discriminate|]. cbn [mem existsb maxlen fold_right]. intros H. apply orb_prop in H as [H|H].
  - apply str_eqb_eq in H. subst a. apply Nat.le_max_l.
  - specialize (IH H). unfold maxlen in IH. etransitivity; [exact IH | apply Nat.le_max_r].
Qed.
Lemma ascii_lower_length x : length (ascii_lower_s x) = length x.
Proof. unfold ascii_lower_s. apply map_length. Qed.

Lemma timeout_next_grows cur name : 19 <= length name -> length cur = length name -> length (timeout_next cur name) = S (length name).
Proof.
  intros H E. unfold timeout_next.
  assert (forall k, length k <= 18 -> runes_eqb cur k = false) as K.
  { intros k Hk. apply str_eqb_neq. intros X. subst cur. lia. }
  rewrite !K by (vm_compute; lia). rewrite app_length. change (length (s "1")) with 1. lia.
Qed.

Lemma rename_timeout_long seen : forall k name, 19 <= length name -> maxlen seen < length name + k -> exists r, rename_timeout (S k) seen name = Some r.
Proof.
  induction k as [|k IH]; intros name H12 Hm; cbn [rename_timeout].
  - destruct (mem (ascii_lower_s name) seen) eqn:E; [|eauto]. apply mem_length_le in E. rewrite ascii_lower_length in E. lia.
  - destruct (mem (ascii_lower_s name) seen) eqn:E; [|eauto].
    apply IH; rewrite (timeout_next_grows _ _ H12 (ascii_lower_length name)); lia.
Qed.

From Coq Require FinFun.
(* ---------- renameTimeout always ends, from the name it is started with ---------- *)
(* the candidates: six fixed names, then "operTimeout" followed by more and more 1s *)
Definition ones (k : nat) : runes := repeat 49%N k.
Definition cand (i : nat) : runes :=
  match i with
  | 0 => s "timeout" | 1 => s "requestTimeout" | 2 => s "httpRequestTimeout" | 3 => s "swaggerTimeout"
  | 4 => s "operationTimeout" | 5 => s "opTimeout"
  | S (S (S (S (S (S k))))) => s "operTimeout" ++ ones k
  end.
Definition lcand (i : nat) : runes := ascii_lower_s (cand i).

Lemma ascii_lower_app a b : ascii_lower_s (a ++ b) = ascii_lower_s a ++ ascii_lower_s b.
Proof. unfold ascii_lower_s. apply map_app. Qed.
Lemma ascii_lower_ones k : ascii_lower_s (ones k) = ones k.
Proof. induction k as [|k IH]; [reflexivity|]. cbn [ones repeat ascii_lower_s map] in *. f_equal. exact IH. Qed.
Lemma ones_snoc k : ones k ++ s "1" = ones (S k).
Proof. induction k as [|k IH]; [reflexivity|]. cbn [ones repeat app] in *. f_equal. exact IH. Qed.

Lemma lcand_tail k : lcand (6 + k) = s "opertimeout" ++ ones k.
Proof. unfold lcand. cbn [cand Nat.add]. rewrite ascii_lower_app, ascii_lower_ones. reflexivity. Qed.

(* the step of renameTimeout walks the candidates in order *)
Lemma cand_next i : timeout_next (lcand i) (cand i) = cand (S i).
Proof.
  do 6 (destruct i as [|i]; [vm_compute; reflexivity|]).
  change (S (S (S (S (S (S i)))))) with (6 + i). rewrite lcand_tail. unfold timeout_next.
  (* "opertimeout…" differs from each fixed name within its first five runes *)
  repeat match goal with |- context [runes_eqb (s "opertimeout" ++ ones i) ?c] =>
    replace (runes_eqb (s "opertimeout" ++ ones i) c) with false by (vm_compute; reflexivity) end.
  cbn [cand Nat.add]. rewrite <- app_assoc, ones_snoc. reflexivity.
Qed.

Lemma lcand_length i : 6 <= i -> length (lcand i) = 5 + i.
Proof.
  intro H. replace i with (6 + (i - 6)) at 1 by lia. rewrite lcand_tail, app_length. unfold ones. rewrite repeat_length.
  change (length (s "opertimeout")) with 11. lia.
Qed.

(* no two candidates have the same lower-cased name *)
Lemma lcand_inj i j : lcand i = lcand j -> i = j.
Proof.
  intro H. destruct (Nat.lt_ge_cases i 6) as [Hi|Hi]; destruct (Nat.lt_ge_cases j 6) as [Hj|Hj].
  - do 6 (destruct i as [|i]; [do 6 (destruct j as [|j]; [vm_compute in H; first [reflexivity|discriminate]|]); lia|]). lia.
  - exfalso. pose proof (f_equal (@length _) H) as L. rewrite (lcand_length j Hj) in L.
    replace j with (6 + (j - 6)) in H by lia. rewrite lcand_tail in H.
    do 6 (destruct i as [|i]; [vm_compute in H; discriminate H|]). lia.
  - exfalso. replace i with (6 + (i - 6)) in H by lia. rewrite lcand_tail in H.
    do 6 (destruct j as [|j]; [vm_compute in H; discriminate H|]). lia.
  - pose proof (f_equal (@length _) H) as L. rewrite (lcand_length i Hi), (lcand_length j Hj) in L. lia.
Qed.

Lemma rename_timeout_walk seen : forall fuel i,
  (exists j, i <= j < i + fuel /\ mem (lcand j) seen = false) -> exists r, rename_timeout fuel seen (cand i) = Some r.
Proof.
  induction fuel as [|f IH]; intros i [j [Hj Hm]]; [lia|]. cbn [rename_timeout]. fold (lcand i).
  destruct (mem (lcand i) seen) eqn:E; [|eauto]. rewrite cand_next. apply IH. exists j. split; [|exact Hm].
  destruct (Nat.eq_dec i j) as [->|Hne]; [congruence|lia].
Qed.

(* more distinct names than [seen] has entries cannot all be in [seen] *)
Lemma fresh_candidate seen : exists j, j < S (length seen) /\ mem (lcand j) seen = false.
Proof.
  destruct (forallb (fun j => mem (lcand j) seen) (seq 0 (S (length seen)))) eqn:F.
  - exfalso. rewrite forallb_forall in F.
    assert (NoDup (map lcand (seq 0 (S (length seen))))) as ND.
    { apply FinFun.Injective_map_NoDup; [intros a b; apply lcand_inj|apply seq_NoDup]. }
    assert (incl (map lcand (seq 0 (S (length seen)))) seen) as I.
    { intros x Hx. rewrite in_map_iff in Hx. destruct Hx as [j [<- Hj]]. apply mem_In. apply F, Hj. }
    pose proof (NoDup_incl_length ND I) as L. rewrite map_length, seq_length in L. exact (Nat.nle_succ_diag_l _ L).
  - assert (exists j, In j (seq 0 (S (length seen))) /\ mem (lcand j) seen = false) as [j [Hj Hm]].
    { clear -F. induction (seq 0 (S (length seen))) as [|a l IH]; [discriminate|]. cbn [forallb] in F.
      destruct (mem (lcand a) seen) eqn:E.
      - cbn [andb] in F. destruct (IH F) as [j [Hj Hm]]. exists j. split; [right; exact Hj|exact Hm].
      - exists a. split; [left; reflexivity|exact E]. }
    exists j. split; [|exact Hm]. apply in_seq in Hj. lia.
Qed.

Theorem rename_timeout_total seen fuel : length seen < fuel -> exists r, rename_timeout fuel seen (s "timeout") = Some r.
Proof.
  intro H. change (s "timeout") with (cand 0). apply rename_timeout_walk.
  destruct (fresh_candidate seen) as [j [Hj Hm]]. exists j. split; [|exact Hm].
  change (j < S (@length runes seen)) in Hj. lia.
Qed.

Theorem timeout_name_total u params : exists r, timeout_name u params = Some r.
Proof. unfold timeout_name. apply rename_timeout_total. rewrite map_length. lia. Qed.

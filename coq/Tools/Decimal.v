(* Tools/Decimal.v — decimal text of integers of any size (what %d / big.Int.String print and what the YAML and
   JSON readers parse back).  Built on the standard library's Decimal conversion, whose round-trip lemmas are reused. *)
From Coq Require Import DecimalString DecimalZ DecimalPos Decimal.
From GS Require Import Base.Str.

Fixpoint str_of_string (x : string) : str :=
  match x with EmptyString => [] | String a r => N_of_ascii a :: str_of_string r end.
Fixpoint string_of_str (x : str) : string :=
  match x with [] => EmptyString | c :: r => String (ascii_of_N c) (string_of_str r) end.

Definition dec_text (z : Z) : str := str_of_string (NilZero.string_of_int (Z.to_int z)).
Definition parse_dec (x : str) : option Z := option_map Z.of_int (NilZero.int_of_string (string_of_str x)).

Lemma string_of_str_of_string x : string_of_str (str_of_string x) = x.
Proof. induction x as [|a r IH]; cbn; [reflexivity|]. now rewrite ascii_N_embedding, IH. Qed.

Lemma to_int_not_nil z : Z.to_int z <> Pos Nil /\ Z.to_int z <> Neg Nil.
Proof.
  destruct z as [|p|p]; cbn; split; try discriminate; intro H; injection H as H;
    exact (DecimalPos.Unsigned.to_uint_nonnil p H).
Qed.

Lemma parse_dec_text z : parse_dec (dec_text z) = Some z.
Proof.
  unfold parse_dec, dec_text. rewrite string_of_str_of_string.
  destruct (to_int_not_nil z) as [H1 H2]. rewrite NilZero.isi by assumption.
  cbn. now rewrite DecimalZ.of_to.
Qed.

(* evaluation harness: Go's decimal rendering vs dec_text, the parse back, and the diff model's own dec_of_Z *)
Definition judge_dec (c : Z * str) : list nat :=
  (if str_eqb (dec_text (fst c)) (snd c) then [] else [1]) ++
  (match parse_dec (snd c) with Some z => if Z.eqb z (fst c) then [] else [2] | None => [3] end) ++
  (if str_eqb (dec_of_Z (fst c)) (snd c) then [] else [4]).

Fixpoint run_dec_from (i : nat) (cs : list (Z * str)) : list (nat * list nat) :=
  match cs with
  | [] => []
  | c :: r => match judge_dec c with [] => run_dec_from (S i) r | l => (i, l) :: run_dec_from (S i) r end
  end.
Definition run_dec (cs : list (Z * str)) := run_dec_from 0 cs.

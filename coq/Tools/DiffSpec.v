(* Tools/DiffSpec.v — abstract Swagger 2.0 documents as seen by `swagger diff` (fragment: no extensions,
   no tuple items, integer-valued numeric bounds; maps are association lists with distinct keys).
   Definitions only. *)
From GS Require Import Base.Str.

Inductive enumv := EStr (x : str) | EInt (z : Z) | EBool (b : bool).

(* fmt.Sprintf("%v", e) for JSON-decoded enum values (integers below 10^6 in absolute value) *)
Definition enumv_fmt (e : enumv) : str :=
  match e with
  | EStr x => x
  | EInt z => dec_of_Z z
  | EBool true => s "true"
  | EBool false => s "false"
  end.

(* default / example values of simple schemas (interface{} in Go) *)
Inductive dval := DNone | DStr (x : str) | DInt (z : Z) | DBool (b : bool) | DArr (l : list dval).

Record vals := {
  v_max : option Z; v_min : option Z; v_xmax : bool; v_xmin : bool;
  v_maxlen : option Z; v_minlen : option Z; v_maxitems : option Z; v_minitems : option Z;
  v_pattern : str; v_enum : list enumv }.

Definition no_vals : vals :=
  {| v_max := None; v_min := None; v_xmax := false; v_xmin := false;
     v_maxlen := None; v_minlen := None; v_maxitems := None; v_minitems := None;
     v_pattern := []; v_enum := [] |}.

(* spec.Schema: ref (definition name, "" = none), type list, format, description, validations,
   items (single schema), properties, required, allOf *)
Inductive schema :=
  Schema (ref : str) (typ : list str) (format : str) (desc : str) (v : vals)
         (items : option schema) (props : list (str * schema)) (required : list str) (allof : list schema).

Definition sc_ref (x : schema) := let 'Schema r _ _ _ _ _ _ _ _ := x in r.
Definition sc_typ (x : schema) := let 'Schema _ t _ _ _ _ _ _ _ := x in t.
Definition sc_format (x : schema) := let 'Schema _ _ f _ _ _ _ _ _ := x in f.
Definition sc_desc (x : schema) := let 'Schema _ _ _ d _ _ _ _ _ := x in d.
Definition sc_vals (x : schema) := let 'Schema _ _ _ _ v _ _ _ _ := x in v.
Definition sc_items (x : schema) := let 'Schema _ _ _ _ _ i _ _ _ := x in i.
Definition sc_props (x : schema) := let 'Schema _ _ _ _ _ _ p _ _ := x in p.
Definition sc_required (x : schema) := let 'Schema _ _ _ _ _ _ _ r _ := x in r.
Definition sc_allof (x : schema) := let 'Schema _ _ _ _ _ _ _ _ a := x in a.

(* spec.Items / SimpleSchema chain for non-body parameters and headers *)
Inductive simple :=
  Simple (typ : str) (format : str) (cfmt : str) (nullable : bool) (default example : dval) (v : vals)
         (items : option simple).

Definition si_typ (x : simple) := let 'Simple t _ _ _ _ _ _ _ := x in t.
Definition si_format (x : simple) := let 'Simple _ f _ _ _ _ _ _ := x in f.
Definition si_cfmt (x : simple) := let 'Simple _ _ c _ _ _ _ _ := x in c.
Definition si_nullable (x : simple) := let 'Simple _ _ _ n _ _ _ _ := x in n.
Definition si_default (x : simple) := let 'Simple _ _ _ _ d _ _ _ := x in d.
Definition si_example (x : simple) := let 'Simple _ _ _ _ _ e _ _ := x in e.
Definition si_vals (x : simple) := let 'Simple _ _ _ _ _ _ v _ := x in v.
Definition si_items (x : simple) := let 'Simple _ _ _ _ _ _ _ i := x in i.

Record param := {
  p_name : str; p_in : str; p_required : bool; p_desc : str;
  p_schema : option schema;       (* body parameters *)
  p_simple : simple }.            (* everything else (for body: empty type) *)

Record response := { r_desc : str; r_schema : option schema; r_headers : list (str * simple) }.

Record operation := {
  o_tags : option (list str); o_desc : str; o_deprecated : bool;
  o_params : list param; o_responses : list (Z * response) }.

Record pathitem := { pi_params : list param; pi_ops : list (str * operation) }.

Record swagger := {
  sw_consumes : option (list str); sw_produces : option (list str); sw_schemes : option (list str);
  sw_host : str; sw_basepath : str; sw_info_desc : str;
  sw_paths : list (str * pathitem);
  sw_defs : list (str * schema) }.

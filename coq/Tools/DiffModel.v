(* Tools/DiffModel.v — executable model of cmd/swagger/commands/diff (spec_analyser.go, checks.go,
   schema.go, type_adapters.go, array_diff.go, reporting.go) on the DiffSpec fragment.
   Follows the control flow of the Go code, quirks included. Every Go map is an association list;
   loops over maps run in list order (the harness compares multisets).  Definitions only. *)
From GS Require Import Base.Str Gen.GenDiffTables Tools.DiffTypes Tools.DiffSpec.

Inductive res (A : Type) := Ok (a : A) | Panic | Fuel.
Arguments Ok {A} a. Arguments Panic {A}. Arguments Fuel {A}.

Definition bind {A B} (x : res A) (f : A -> res B) : res B :=
  match x with Ok a => f a | Panic => Panic | Fuel => Fuel end.
Notation "'do' x <- e ; f" := (bind e (fun x => f)) (at level 200, x pattern, e at level 100, f at level 200).

(* TypeDiff *)
Record tdiff := { td_change : code; td_desc : str; td_from : str; td_to : str }.
Definition td (c : code) (d : str) : tdiff := {| td_change := c; td_desc := d; td_from := []; td_to := [] |}.
Definition td_ft (c : code) (f t : str) : tdiff := {| td_change := c; td_desc := []; td_from := f; td_to := t |}.

(* ---------- type names ---------- *)
Definition prim_type_string (t f : str) : str := if is_empty f then t else t ++ s "." ++ f.

Definition is_primitive_type (t : list str) : bool :=
  match t with
  | [] => false
  | x :: _ => negb (str_eqb x (s "array")) && negb (str_eqb x (s "object"))
  end.
Definition is_array_type (t : list str) : bool :=
  match t with [] => false | x :: _ => str_eqb x (s "array") end.
Definition hd_type (t : list str) : str := match t with x :: _ => x | [] => [] end.

Definition is_ref (x : schema) : bool := negb (is_empty (sc_ref x)).

(* getTypeFromSchemaProps: guarded, appends the format *)
Fixpoint type_of_props (x : schema) : res (str * bool) :=
  match x with
  | Schema ref typ format _ _ items _ _ _ =>
      if negb (is_empty ref) then Ok (ref, false)
      else match typ with
           | [] => Ok ([], false)
           | t :: _ =>
               let tn := prim_type_string t format in
               if str_eqb tn (s "array") then
                 match items with
                 | None => Panic
                 | Some it => do r <- type_of_props it; Ok (fst r, true)
                 end
               else Ok (tn, false)
           end
  end.

(* getTypeFromSchema: no format; the inner array type goes through getTypeFromSchemaProps *)
Definition type_of_schema (x : schema) : res (str * bool) :=
  match x with
  | Schema ref typ _ _ _ items _ _ _ =>
      if negb (is_empty ref) then Ok (ref, false)
      else match typ with
           | [] => Ok ([], false)
           | t :: _ =>
               if str_eqb t (s "array") then
                 match items with
                 | None => Panic
                 | Some it => do r <- type_of_props it; Ok (fst r, true)
                 end
               else Ok (t, false)
           end
  end.

(* getTypeFromSimpleSchema *)
Fixpoint type_of_simple (x : simple) : res (str * bool) :=
  match x with
  | Simple typ format _ _ _ _ _ items =>
      let tn := prim_type_string typ format in
      if str_eqb tn (s "array") then
        match items with
        | None => Panic
        | Some it => do r <- type_of_simple it; Ok (fst r, true)
        end
      else Ok (tn, false)
  end.

Definition format_type_string (r : str * bool) : str :=
  if snd r then s "<array[" ++ fst r ++ s "]>" else s "<" ++ fst r ++ s ">".

Definition node_of (name : str) (r : str * bool) : node := Node name (fst r) (snd r) None.

(* ---------- array_diff.go ---------- *)
(* fromStringArray(from).DiffsTo(to): (added, deleted), each sorted; nil [from] returns [to] unchanged *)
Definition diffs_to (from to : option (list str)) : list str * list str :=
  let t := match to with Some l => l | None => [] end in
  match from with
  | None => (t, [])
  | Some f =>
      (sort_str (dedup (filter (fun x => negb (mem x f)) t)), sort_str (dedup (filter (fun x => negb (mem x t)) f)))
  end.

(* ---------- checks.go ---------- *)
Definition fmt_f (z : Z) : str := dec_of_Z z ++ s ".000000".

Definition compare_float_values (name : str) (v1 v2 : option Z) (gt lt : code) : list tdiff :=
  match v1, v2 with
  | Some a, Some b =>
      if Z.ltb a b then [td gt (name ++ s " " ++ fmt_f a ++ s "->" ++ fmt_f b)]
      else if Z.ltb b a then [td lt (name ++ s " " ++ fmt_f a ++ s "->" ++ fmt_f b)]
      else []
  | Some a, None => [td DeletedConstraint (name ++ s "(" ++ fmt_f a ++ s ")")]
  | None, Some b => [td AddedConstraint (name ++ s "(" ++ fmt_f b ++ s ")")]
  | None, None => []
  end.

Definition compare_int_values (name : str) (v1 v2 : option Z) (gt lt : code) : list tdiff :=
  match v1, v2 with
  | Some a, Some b =>
      if Z.ltb a b then [td gt (name ++ s " " ++ dec_of_Z a ++ s "->" ++ dec_of_Z b)]
      else if Z.ltb b a then [td lt (name ++ s " " ++ dec_of_Z a ++ s "->" ++ dec_of_Z b)]
      else []
  | Some a, None => [td DeletedConstraint (name ++ s "(" ++ dec_of_Z a ++ s ")")]
  | None, Some b => [td AddedConstraint (name ++ s "(" ++ dec_of_Z b ++ s ")")]
  | None, None => []
  end.

Definition nonempty {A} (l : list A) : bool := match l with [] => false | _ => true end.

(* CompareEnums *)
Definition compare_enums (l r : list enumv) : list tdiff :=
  let ad := diffs_to (Some (map enumv_fmt l)) (Some (map enumv_fmt r)) in
  (if nonempty (fst ad) then [td AddedEnumValue (join (s ",") (fst ad))] else []) ++
  (if nonempty (snd ad) then [td DeletedEnumValue (join (s ",") (snd ad))] else []).

Definition wideness (t : str) : option Z := assoc t number_wideness.
Definition is_string_type (t : str) : bool := str_eqb t (s "string") || str_eqb t (s "password").

(* getTypeHierarchyChange *)
Definition type_hierarchy_change (t1 t2 : str) : tdiff :=
  let from := if is_empty t1 then s "object" else t1 in
  let to := if is_empty t2 then s "object" else t2 in
  let d := from ++ s " -> " ++ to in
  if is_string_type t1 && negb (is_string_type t2) then td NarrowedType d
  else if negb (is_string_type t1) && is_string_type t2 then td WidenedType d
  else match wideness t1, wideness t2 with
       | Some w1, Some w2 =>
           if Z.eqb w1 w2 then td ChangedToCompatibleType d
           else if Z.ltb w2 w1 then td NarrowedType d
           else td WidenedType d
       | _, _ => td ChangedType d
       end.

Definition bool_str (b : bool) : str := if b then s "true" else s "false".

(* checkNumericTypeChanges (the "Exclusive Minimum Removed" message prints the *Maximum* flags, as the code does) *)
Definition check_numeric (x1 x2 : schema) : list tdiff :=
  match wideness (hd_type (sc_typ x1)), wideness (hd_type (sc_typ x2)) with
  | Some _, Some _ =>
      let v1 := sc_vals x1 in let v2 := sc_vals x2 in
      let a := if v_xmax v1 && negb (v_xmax v2)
               then [td WidenedType (s "Exclusive Maximum Removed:" ++ bool_str (v_xmax v1) ++ s "->" ++ bool_str (v_xmax v2))] else [] in
      let b := if negb (v_xmax v1) && v_xmax v2
               then [td NarrowedType (s "Exclusive Maximum Added:" ++ bool_str (v_xmax v1) ++ s "->" ++ bool_str (v_xmax v2))] else [] in
      let c := if v_xmin v1 && negb (v_xmin v2)
               then [td WidenedType (s "Exclusive Minimum Removed:" ++ bool_str (v_xmax v1) ++ s "->" ++ bool_str (v_xmax v2))] else [] in
      let d := if negb (v_xmin v1) && v_xmin v2
               then [td NarrowedType (s "Exclusive Minimum Added:" ++ bool_str (v_xmin v1) ++ s "->" ++ bool_str (v_xmin v2))] else [] in
      let flags := a ++ b ++ c ++ d in
      if nonempty flags then flags
      else compare_float_values (s "Maximum") (v_max v1) (v_max v2) WidenedType NarrowedType ++
           compare_float_values (s "Minimum") (v_min v1) (v_min v2) NarrowedType WidenedType
  | _, _ => []
  end.

(* CheckStringTypeChanges *)
Definition check_string (x1 x2 : schema) : list tdiff :=
  if str_eqb (hd_type (sc_typ x1)) (s "string") && str_eqb (hd_type (sc_typ x2)) (s "string") then
    let v1 := sc_vals x1 in let v2 := sc_vals x2 in
    compare_int_values (s "MinLength") (v_minlen v1) (v_minlen v2) NarrowedType WidenedType ++
    compare_int_values (s "MaxLength") (v_maxlen v1) (v_maxlen v2) WidenedType NarrowedType ++
    (if str_eqb (v_pattern v1) (v_pattern v2) then []
     else [td ChangedType (s "Pattern Changed:" ++ v_pattern v1 ++ s "->" ++ v_pattern v2)]) ++
    (if nonempty (v_enum v1) then compare_enums (v_enum v1) (v_enum v2) else [])
  else [].

(* CheckToFromRequired *)
Definition check_required (r1 r2 : bool) : list tdiff :=
  if Bool.eqb r1 r2 then []
  else [td (if r1 then ChangedRequiredToOptional else ChangedOptionalToRequired) []].

(* CheckRefChange; [tos] is getSchemaTypeStr for the static type of the arguments *)
Definition check_ref_change (tos : schema -> res (str * bool)) (x1 x2 : schema) : res (list tdiff) :=
  if is_ref x1 && is_ref x2 then
    if str_eqb (sc_ref x1) (sc_ref x2) then Ok []
    else do a <- tos x1; do b <- tos x2;
         Ok [td_ft RefTargetChanged (format_type_string a) (format_type_string b)]
  else if Bool.eqb (is_ref x1) (is_ref x2) then Ok []
  else do a <- tos x1; do b <- tos x2;
       Ok [td_ft ChangedType (format_type_string a) (format_type_string b)].

(* SpecAnalyser.CompareProps on two SchemaProps *)
Definition compare_props (x1 x2 : schema) : res (list tdiff) :=
  let p1 := is_primitive_type (sc_typ x1) in
  let p2 := is_primitive_type (sc_typ x2) in
  if negb (Bool.eqb p1 p2) then
    do a <- type_of_props x1; do b <- type_of_props x2;
    Ok [td_ft ChangedType (format_type_string a) (format_type_string b)]
  else
    let items := if is_array_type (sc_typ x1) then
                   compare_int_values (s "MaxItems") (v_maxitems (sc_vals x1)) (v_maxitems (sc_vals x2)) WidenedType NarrowedType ++
                   compare_int_values (s "MinItems") (v_minitems (sc_vals x1)) (v_minitems (sc_vals x2)) NarrowedType WidenedType
                 else [] in
    if nonempty items then Ok items
    else
      do refd <- check_ref_change type_of_props x1 x2;
      if nonempty refd then Ok refd
      else if negb (p1 && p2) then Ok []
      else
        let h := if negb (str_eqb (hd_type (sc_typ x1)) (hd_type (sc_typ x2))) || negb (str_eqb (sc_format x1) (sc_format x2))
                 then [type_hierarchy_change (prim_type_string (hd_type (sc_typ x1)) (sc_format x1))
                                             (prim_type_string (hd_type (sc_typ x2)) (sc_format x2))]
                 else [] in
        let d := h ++ check_string x1 x2 in
        if nonempty d then Ok d else Ok (check_numeric x1 x2).

(* ---------- type_adapters.go ---------- *)
Fixpoint for_items (x : simple) : schema :=
  match x with
  | Simple typ format _ _ _ _ v items =>
      Schema [] [typ] format [] v (match items with Some it => Some (for_items it) | None => None end) [] [] []
  end.
(* forParam / forHeader *)
Definition for_simple (x : simple) : schema :=
  Schema [] [si_typ x] (si_format x) [] (si_vals x) (option_map for_items (si_items x)) [] [] [].

(* ---------- analyser state ---------- *)
Record st := { visited : list str; referenced : list str }.
Definition st0 : st := {| visited := []; referenced := [] |}.
Definition mark_visited (k : str) (x : st) : st := {| visited := k :: visited x; referenced := referenced x |}.
Definition mark_referenced (k : str) (x : st) : st :=
  {| visited := visited x; referenced := if mem k (referenced x) then referenced x else k :: referenced x |}.

Definition defs := list (str * schema).

(* schemaFromRef: nil when the definition is missing (the callers then dereference nil) *)
Definition schema_from_ref (d : defs) (name : str) (x : st) : res (schema * st) :=
  match assoc name d with
  | None => Panic
  | Some sc => Ok (sc, mark_referenced name x)
  end.

(* addTypeDiff *)
Definition add_type_diff (l : loc) (t : tdiff) : sdiff :=
  let desc := if is_empty (td_desc t)
              then (if str_eqb (td_from t) (td_to t) then [] else td_from t ++ s " -> " ++ td_to t)
              else td_desc t in
  mk_diff l (td_change t) desc.

Definition code_is_nochange (c : code) : bool := code_eqb c NoChangeDetected.

(* addDiffs *)
Definition add_diffs (l : loc) (ts : list tdiff) : list sdiff :=
  map (add_type_diff l) (filter (fun t => negb (code_is_nochange (td_change t))) ts).

(* compareDescripton *)
Definition compare_description (l : loc) (d1 d2 : str) : list sdiff :=
  if str_eqb d1 d2 then []
  else [mk_diff l (if negb (is_empty d1) then DeletedDescripton
                   else if negb (is_empty d2) then AddedDescripton else ChangedDescripton) []].

(* schemaLocationKey (location.Node is never nil where it is called) *)
Definition schema_location_key (l : loc) : str :=
  match l_node l with
  | None => l_method l ++ l_url l
  | Some n =>
      l_method l ++ l_url l ++ n_field n ++ n_type n ++
      match n_child n with
      | Some c => if n_array c then n_field c ++ n_type c else []
      | None => []
      end
  end.

(* propertiesFor: (name, (schema, required)); later entries override *)
Fixpoint set_assoc {A} (k : str) (v : A) (l : list (str * A)) : list (str * A) :=
  match l with
  | [] => [(k, v)]
  | (k', v') :: r => if str_eqb k k' then (k, v) :: r else (k', v') :: set_assoc k v r
  end.

Fixpoint properties_for (fuel : nat) (d : defs) (x : schema) (sta : st) : res (list (str * (schema * bool)) * st) :=
  match fuel with
  | O => Fuel
  | S f =>
      do xs <- (if is_ref x then schema_from_ref d (sc_ref x) sta else Ok (x, sta));
      let '(x', sta1) := xs in
      let own := map (fun kv => (fst kv, (snd kv, mem (fst kv) (sc_required x')))) (sc_props x') in
      (fix go (l : list schema) (acc : list (str * (schema * bool))) (sta : st) : res (list (str * (schema * bool)) * st) :=
         match l with
         | [] => Ok (acc, sta)
         | m :: r =>
             do ps <- properties_for f d m sta;
             go r (fold_left (fun a kv => set_assoc (fst kv) (snd kv) a) (fst ps) acc) (snd ps)
         end) (sc_allof x') own sta1
  end.

(* addChildDiffNode *)
Definition add_child_node (l : loc) (name : str) (prop : schema) : res loc :=
  do r <- type_of_props prop; Ok (loc_add l (node_of name r)).

(* compareSchema + CompareProperties *)
Fixpoint compare_schema (fuel : nat) (d1 d2 : defs) (l : loc) (x1 x2 : schema) (sta : st) : res (list sdiff * st) :=
  match fuel with
  | O => Fuel
  | S f =>
      do refd <- check_ref_change type_of_schema x1 x2;
      if nonempty refd then Ok (map (add_type_diff l) refd, sta)
      else
        let key := schema_location_key l in
        if is_ref x1 && mem key (visited sta) then Ok ([], sta)
        else
          do a <- (if is_ref x1 then schema_from_ref d1 (sc_ref x1) (mark_visited key sta) else Ok (x1, sta));
          let '(y1, sta1) := a in
          do b <- (if is_ref x2 then schema_from_ref d2 (sc_ref x2) sta1 else Ok (x2, sta1));
          let '(y2, sta2) := b in
          let descd := compare_description l (sc_desc y1) (sc_desc y2) in
          do tds <- compare_props y1 y2;
          if nonempty tds then Ok (descd ++ add_diffs l tds, sta2)
          else
            do arr <- (if is_array_type (sc_typ y1) then
                         if is_array_type (sc_typ y2) then
                           match sc_items y1, sc_items y2 with
                           | Some i1, Some i2 => compare_schema f d1 d2 l i1 i2 sta2
                           | _, _ => Panic
                           end
                         else
                           do ta <- type_of_schema y1; do tb <- type_of_schema y2;
                           Ok (add_diffs l [td_ft ChangedType (format_type_string ta) (format_type_string tb)], sta2)
                       else Ok ([], sta2));
            let '(arrd, sta3) := arr in
            (* CompareProperties *)
            if negb (nonempty (sc_props y1)) && negb (nonempty (sc_props y2)) then Ok (descd ++ arrd, sta3)
            else
              do p1 <- properties_for f d1 y1 sta3;
              do p2 <- properties_for f d2 y2 (snd p1);
              let props1 := fst p1 in let props2 := fst p2 in
              do common <-
                (fix go (ps : list (str * (schema * bool))) (sta : st) : res (list sdiff * st) :=
                   match ps with
                   | [] => Ok ([], sta)
                   | (name, (sc1, req1)) :: r =>
                       do cl <- add_child_node l name sc1;
                       do here <- match assoc name props2 with
                                  | Some (sc2, req2) =>
                                      do sub <- compare_schema f d1 d2 cl sc1 sc2 sta;
                                      Ok (map (fun t => mk_diff cl (td_change t) []) (check_required req1 req2) ++ fst sub, snd sub)
                                  | None => Ok ([mk_diff cl DeletedProperty []], sta)
                                  end;
                       do rest <- go r (snd here);
                       Ok (fst here ++ fst rest, snd rest)
                   end) (sort_kv props1) (snd p2);
              do added <-
                (fix go (ps : list (str * schema)) : res (list sdiff) :=
                   match ps with
                   | [] => Ok []
                   | (name, sc2) :: r =>
                       do rest <- go r;
                       if has_key name (sc_props y1) then Ok rest
                       else
                         do cl <- add_child_node l name sc2;
                         let req := match assoc name props2 with Some (_, q) => q | None => false end in
                         Ok (mk_diff cl (if req then AddedRequiredProperty else AddedProperty) [] :: rest)
                   end) (sc_props y2);
              Ok (descd ++ arrd ++ fst common ++ added, snd common)
  end.

(* ---------- compareSimpleSchema ---------- *)
Fixpoint dval_eqb (a b : dval) : bool :=
  match a, b with
  | DNone, DNone => true
  | DStr x, DStr y => str_eqb x y
  | DInt x, DInt y => Z.eqb x y
  | DBool x, DBool y => Bool.eqb x y
  | DArr l, DArr l' =>
      (fix go (l l' : list dval) : bool :=
         match l, l' with
         | [], [] => true
         | x :: r, y :: r' => dval_eqb x y && go r r'
         | _, _ => false
         end) l l'
  | _, _ => false
  end.
Definition dval_is_none (a : dval) : bool := match a with DNone => true | _ => false end.

Fixpoint compare_simple (l : loc) (x1 x2 : simple) : res (list sdiff) :=
  do t1 <- type_of_simple x1;
  do t2 <- type_of_simple x2;
  let ft c := add_diffs l [td_ft c (format_type_string t1) (format_type_string t2)] in
  let nul := if si_nullable x1 && negb (si_nullable x2) then ft ChangedOptionalToRequired
             else if negb (si_nullable x1) && si_nullable x2 then ft ChangedRequiredToOptional else [] in
  let cf := if str_eqb (si_cfmt x1) (si_cfmt x2) then [] else ft ChangedCollectionFormat in
  let df := if dval_eqb (si_default x1) (si_default x2) then []
            else if dval_is_none (si_default x1) then ft AddedDefault
            else if dval_is_none (si_default x2) then ft DeletedDefault else ft ChangedDefault in
  let ex := if dval_eqb (si_example x1) (si_example x2) then []
            else if dval_is_none (si_example x1) then ft AddedExample
            else if dval_is_none (si_example x2) then ft DeletedExample else ft ChangedExample in
  do arr <- (if str_eqb (si_typ x1) (s "array") then
               if str_eqb (si_typ x2) (s "array") then
                 match x1, si_items x2 with
                 | Simple _ _ _ _ _ _ _ (Some i1), Some i2 => compare_simple l i1 i2
                 | _, _ => Panic
                 end
               else Ok (ft ChangedType)
             else Ok []);
  Ok (nul ++ cf ++ df ++ ex ++ arr).

(* ---------- whole-document analysis ---------- *)
Definition methods_order : list str :=
  [s "post"; s "get"; s "put"; s "patch"; s "head"; s "options"; s "delete"].

(* getURLMethodsFor: (url, method) -> (path item, operation) *)
Definition url_methods (sw : swagger) : list ((str * str) * (pathitem * operation)) :=
  flat_map (fun up => let '(url, pit) := up in
                      map (fun mo => ((url, fst mo), (pit, snd mo))) (pi_ops pit)) (sw_paths sw).

Fixpoint find_um (k : str * str) (l : list ((str * str) * (pathitem * operation))) : option (pathitem * operation) :=
  match l with
  | [] => None
  | (k', v) :: r => if str_eqb (fst k) (fst k') && str_eqb (snd k) (snd k') then Some v else find_um k r
  end.

(* getParams: path-level parameters first, operation-level ones override *)
Definition get_params (path_params op_params : list param) (location : str) : list (str * param) :=
  let add acc ps := fold_left (fun a p => if str_eqb (p_in p) location then set_assoc (p_name p) p a else a) ps acc in
  add (add [] path_params) op_params.

Definition spec_loc (child : str) : loc :=
  {| l_url := []; l_method := []; l_response := 0; l_node := Some (Node (s "Spec") [] false (Some (leaf child))) |}.

Definition meta_loc : loc :=
  {| l_url := []; l_method := []; l_response := 0; l_node := Some (leaf (s "Spec Metadata")) |}.

Definition analyse_meta_prop (a b : str) (c : code) : list sdiff :=
  if str_eqb a b then [] else [mk_diff meta_loc c (a ++ s " -> " ++ b)].

Definition analyse_metadata (a b : swagger) : list sdiff :=
  let lst (child : str) (x y : option (list str)) (ca cd : code) :=
    let ad := diffs_to x y in
    map (fun v => mk_diff (spec_loc child) ca v) (fst ad) ++ map (fun v => mk_diff (spec_loc child) cd v) (snd ad) in
  lst (s "consumes") (sw_consumes a) (sw_consumes b) AddedConsumesFormat DeletedConsumesFormat ++
  lst (s "produces") (sw_produces a) (sw_produces b) AddedProducesFormat DeletedProducesFormat ++
  lst (s "schemes") (sw_schemes a) (sw_schemes b) AddedSchemes DeletedSchemes ++
  analyse_meta_prop (sw_info_desc a) (sw_info_desc b) ChangedDescripton ++
  analyse_meta_prop (sw_host a) (sw_host b) ChangedHostURL ++
  analyse_meta_prop (sw_basepath a) (sw_basepath b) ChangedBasePath.

Definition um_loc (k : str * str) : loc := {| l_url := fst k; l_method := snd k; l_response := 0; l_node := None |}.

Definition options_deprecated (pit : pathitem) : bool :=
  match assoc (s "options") (pi_ops pit) with Some o => o_deprecated o | None => false end.

Definition analyse_endpoints (um1 um2 : list ((str * str) * (pathitem * operation))) : list sdiff :=
  flat_map (fun e => let '(k, (pit, op)) := e in
                     match find_um k um2 with
                     | Some _ => []
                     | None => [mk_diff (um_loc k) (if options_deprecated pit || o_deprecated op
                                                     then DeletedDeprecatedEndpoint else DeletedEndpoint) []]
                     end) um1 ++
  flat_map (fun e => match find_um (fst e) um1 with
                     | Some _ => []
                     | None => [mk_diff (um_loc (fst e)) AddedEndpoint []]
                     end) um2.

(* strings.Title on the five location names *)
Definition title_of (location : str) : str :=
  match location with
  | c :: r => (if (97 <=? c)%N && (c <=? 122)%N then (c - 32)%N else c) :: r
  | [] => []
  end.

Definition param_locations : list str := [s "query"; s "path"; s "body"; s "header"; s "formData"].

(* compareParams *)
Definition compare_params (fuel : nat) (d1 d2 : defs) (k : str * str) (location name : str) (p1 p2 : param) (sta : st)
  : res (list sdiff * st) :=
  let dl := um_loc k in
  let child0 := loc_add dl (leaf (title_of location)) in
  let ploc := loc_add dl (leaf name) in
  let descd := compare_description ploc (p_desc p1) (p_desc p2) in
  do body <- match p_schema p1, p_schema p2 with
             | Some s1, Some s2 =>
                 do cl <- (if is_empty name then Ok child0
                           else do r <- type_of_props s2; Ok (loc_add child0 (node_of name r)));
                 do c <- compare_schema fuel d1 d2 cl s1 s2 sta;
                 Ok (cl, fst c, snd c)
             | _, _ => Ok (child0, [], sta)
             end;
  let '(child1, bodyd, sta1) := body in
  do tds <- compare_props (for_simple (p_simple p1)) (for_simple (p_simple p2));
  do r2 <- type_of_simple (p_simple p2);
  let child2 := loc_add child1 (node_of name r2) in
  do simp <- compare_simple child2 (p_simple p1) (p_simple p2);
  Ok (descd ++ bodyd ++ add_diffs child2 tds ++ add_diffs child2 (check_required (p_required p1) (p_required p2)) ++ simp, sta1).

Definition analyse_request_params (fuel : nat) (d1 d2 : defs) (um1 um2 : list ((str * str) * (pathitem * operation))) (sta : st)
  : res (list sdiff * st) :=
  (fix locs (ls : list str) (sta : st) : res (list sdiff * st) :=
     match ls with
     | [] => Ok ([], sta)
     | location :: lr =>
         do here <-
           (fix ums (es : list ((str * str) * (pathitem * operation))) (sta : st) : res (list sdiff * st) :=
              match es with
              | [] => Ok ([], sta)
              | (k, (pit2, op2)) :: er =>
                  do this <- match find_um k um1 with
                             | None => Ok ([], sta)
                             | Some (pit1, op1) =>
                                 let params1 := get_params (pi_params pit1) (o_params op1) location in
                                 let params2 := get_params (pi_params pit2) (o_params op2) location in
                                 let root := {| l_url := fst k; l_method := snd k; l_response := 0; l_node := Some (leaf (title_of location)) |} in
                                 do deleted <-
                                   (fix go (ps : list (str * param)) : res (list sdiff) :=
                                      match ps with
                                      | [] => Ok []
                                      | (n, p) :: r =>
                                          do rest <- go r;
                                          if has_key n params2 then Ok rest
                                          else do t <- type_of_simple (p_simple p);
                                               Ok (mk_diff (loc_add root (node_of n t))
                                                     (if p_required p then DeletedRequiredParam else DeletedOptionalParam) [] :: rest)
                                      end) params1;
                                 do changed <-
                                   (fix go (ps : list (str * param)) (sta : st) : res (list sdiff * st) :=
                                      match ps with
                                      | [] => Ok ([], sta)
                                      | (n, p2) :: r =>
                                          do h <- match assoc n params1 with
                                                  | Some p1 => compare_params fuel d1 d2 k location n p1 p2 sta
                                                  | None =>
                                                      do t <- type_of_simple (p_simple p2);
                                                      Ok ([mk_diff (loc_add root (node_of n t))
                                                             (if p_required p2 then AddedRequiredParam else AddedOptionalParam) []], sta)
                                                  end;
                                          do rest <- go r (snd h);
                                          Ok (fst h ++ fst rest, snd rest)
                                      end) params2 sta;
                                 Ok (deleted ++ fst changed, snd changed)
                             end;
                  do rest <- ums er (snd this);
                  Ok (fst this ++ fst rest, snd rest)
              end) um2 sta;
         do rest <- locs lr (snd here);
         Ok (fst here ++ fst rest, snd rest)
     end) param_locations sta.

Definition quote (x : str) : str := s """" ++ x ++ s """".

Definition analyse_endpoint_data (um1 um2 : list ((str * str) * (pathitem * operation))) : list sdiff :=
  flat_map (fun e => let '(k, (_, op2)) := e in
                     match find_um k um1 with
                     | None => []
                     | Some (_, op1) =>
                         let ad := diffs_to (o_tags op1) (o_tags op2) in
                         map (fun t => mk_diff (um_loc k) AddedTag (quote t)) (fst ad) ++
                         map (fun t => mk_diff (um_loc k) DeletedTag (quote t)) (snd ad) ++
                         compare_description (um_loc k) (o_desc op1) (o_desc op2)
                     end) um2.

Fixpoint assocZ {A} (k : Z) (l : list (Z * A)) : option A :=
  match l with [] => None | (k', v) :: r => if Z.eqb k k' then Some v else assocZ k r end.

Definition resp_loc (k : str * str) (code : Z) (n : node) : loc :=
  {| l_url := fst k; l_method := snd k; l_response := code; l_node := Some n |}.

Definition body_node (x : schema) : res node := do r <- type_of_props x; Ok (node_of (s "Body") r).

Definition analyse_response (fuel : nat) (d1 d2 : defs) (k : str * str) (code : Z) (r1 r2 : response) (sta : st)
  : res (list sdiff * st) :=
  let hloc := resp_loc k code (leaf (s "Headers")) in
  do hdr2 <-
    (fix go (hs : list (str * simple)) : res (list sdiff) :=
       match hs with
       | [] => Ok []
       | (n, h2) :: r =>
           do rest <- go r;
           match assoc n (r_headers r1) with
           | Some h1 => do tds <- compare_props (for_simple h1) (for_simple h2); Ok (add_diffs hloc tds ++ rest)
           | None => do t <- type_of_simple h2; Ok (mk_diff (loc_add hloc (node_of n t)) AddedResponseHeader [] :: rest)
           end
       end) (r_headers r2);
  do hdr1 <-
    (fix go (hs : list (str * simple)) : res (list sdiff) :=
       match hs with
       | [] => Ok []
       | (n, h1) :: r =>
           do rest <- go r;
           if has_key n (r_headers r2) then Ok rest
           else do t <- type_of_simple h1; Ok (mk_diff (loc_add hloc (node_of n t)) DeletedResponseHeader [] :: rest)
       end) (r_headers r1);
  do nd <- match r_schema r1 with Some x => body_node x | None => Ok (leaf (s "NoContent")) end;
  let descd := compare_description (resp_loc k code nd) (r_desc r1) (r_desc r2) in
  do body <- match r_schema r1, r_schema r2 with
             | Some x1, None => do n <- body_node x1; Ok ([mk_diff (resp_loc k code n) DeletedProperty []], sta)
             | Some x1, Some x2 => do n <- body_node x1; compare_schema fuel d1 d2 (resp_loc k code n) x1 x2 sta
             | None, Some x2 => do n <- body_node x2; Ok ([mk_diff (resp_loc k code n) AddedProperty []], sta)
             | None, None => Ok ([], sta)
             end;
  Ok (hdr2 ++ hdr1 ++ descd ++ fst body, snd body).

Definition analyse_response_params (fuel : nat) (d1 d2 : defs) (um1 um2 : list ((str * str) * (pathitem * operation))) (sta : st)
  : res (list sdiff * st) :=
  (fix ums (es : list ((str * str) * (pathitem * operation))) (sta : st) : res (list sdiff * st) :=
     match es with
     | [] => Ok ([], sta)
     | (k, (_, op2)) :: er =>
         do this <- match find_um k um1 with
                    | None => Ok ([], sta)
                    | Some (_, op1) =>
                        do deleted <-
                          (fix go (rs : list (Z * response)) : res (list sdiff) :=
                             match rs with
                             | [] => Ok []
                             | (c, r1) :: r =>
                                 do rest <- go r;
                                 match assocZ c (o_responses op2) with
                                 | Some _ => Ok rest
                                 | None =>
                                     do n <- match r_schema r1 with Some x => body_node x | None => Ok (leaf (s "NoContent")) end;
                                     Ok (mk_diff (resp_loc k c n) DeletedResponse [] :: rest)
                                 end
                             end) (o_responses op1);
                        do changed <-
                          (fix go (rs : list (Z * response)) (sta : st) : res (list sdiff * st) :=
                             match rs with
                             | [] => Ok ([], sta)
                             | (c, r2) :: r =>
                                 do h <- match assocZ c (o_responses op1) with
                                         | Some r1 => analyse_response fuel d1 d2 k c r1 r2 sta
                                         | None =>
                                             do n <- match r_schema r2 with Some x => body_node x | None => Ok (leaf (s "NoContent")) end;
                                             Ok ([mk_diff (resp_loc k c n) AddedResponse []], sta)
                                         end;
                                 do rest <- go r (snd h);
                                 Ok (fst h ++ fst rest, snd rest)
                             end) (sort_zkv (o_responses op2)) sta;
                        Ok (deleted ++ fst changed, snd changed)
                    end;
         do rest <- ums er (snd this);
         Ok (fst this ++ fst rest, snd rest)
     end) um2 sta.

Definition defs_loc (name : str) : loc :=
  {| l_url := []; l_method := []; l_response := 0; l_node := Some (Node (s "Spec Definitions") [] false (Some (leaf name))) |}.

(* AnalyseDefinitions: definitions not referenced from any endpoint comparison so far *)
Definition analyse_definitions (fuel : nat) (d1 d2 : defs) (sta : st) : res (list sdiff * st) :=
  let already := referenced sta in
  do common <-
    (fix go (ds : defs) (sta : st) : res (list sdiff * st) :=
       match ds with
       | [] => Ok ([], sta)
       | (n, x1) :: r =>
           do h <- (if mem n already then Ok ([], sta)
                    else match assoc n d2 with
                         | Some x2 => compare_schema fuel d1 d2 (defs_loc n) x1 x2 sta
                         | None => Ok (add_diffs (defs_loc n) [td DeletedDefinition []], sta)
                         end);
           do rest <- go r (snd h);
           Ok (fst h ++ fst rest, snd rest)
       end) (sort_kv d1) sta;
  let added := flat_map (fun kv => if has_key (fst kv) d1 then [] else add_diffs (defs_loc (fst kv)) [td AddedDefinition []]) d2 in
  Ok (fst common ++ added, snd common).

(* SpecAnalyser.Analyse *)
Definition analyse (fuel : nat) (a b : swagger) : res (list sdiff) :=
  let um1 := url_methods a in let um2 := url_methods b in
  let d1 := sw_defs a in let d2 := sw_defs b in
  do rq <- analyse_request_params fuel d1 d2 um1 um2 st0;
  do rs <- analyse_response_params fuel d1 d2 um1 um2 (snd rq);
  do df <- analyse_definitions fuel d1 d2 (snd rs);
  Ok (analyse_metadata a b ++ analyse_endpoints um1 um2 ++ fst rq ++ analyse_endpoint_data um1 um2 ++ fst rs ++ fst df).

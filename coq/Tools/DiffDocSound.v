(* Tools/DiffDocSound.v — C13 at document level: whatever the analysis of two whole documents returns, it contains the
   entry that reports each request- or response-breaking edit of the property's list — a removed endpoint, a removed
   parameter, a parameter added as required, a parameter that became required, a narrowed primitive parameter, a removed
   response code, a removed response header.  This is the composition of the per-comparison lemmas (DiffSound.v,
   DiffModelLemmas.v) over the document walk of SpecAnalyser.Analyse: the loops over locations, (url, method) pairs,
   effective parameter sets, response codes and headers.
   The loops of the model are anonymous [fix]es; they are named here and shown to be the very same terms (by
   reflexivity), so that each loop gets its own induction. *)
From Coq Require Import Lia.
From GS Require Import Base.Str Gen.GenDiffTables Tools.DiffTypes Tools.DiffSpec Tools.DiffReport Tools.DiffModel Tools.DiffModelLemmas
  Tools.DiffIdentity Tools.DiffSound.

Definition is_breaking (d : sdiff) : bool := compat_eqb (d_compat d) Breaking.
Definition has_breaking (ds : list sdiff) : bool := existsb is_breaking ds.
(* the report holds an entry built by addDiff (location, code, text) whose compatibility is Breaking *)
Definition reports_breaking (ds : list sdiff) : Prop :=
  exists l c info, In (mk_diff l c info) ds /\ is_breaking (mk_diff l c info) = true.

Lemma reports_breaking_in l c info ds : In (mk_diff l c info) ds -> is_breaking (mk_diff l c info) = true -> reports_breaking ds.
Proof. intros Hin Hb. exists l, c, info. split; assumption. Qed.

Lemma reports_breaking_incl l ds : incl l ds -> reports_breaking l -> reports_breaking ds.
Proof. intros Hi [lo [c [info [Hin Hb]]]]. exists lo, c, info. split; [apply Hi; exact Hin | exact Hb]. Qed.

Lemma reports_has_breaking ds : reports_breaking ds -> has_breaking ds = true.
Proof. intros [l [c [info [Hin Hb]]]]. unfold has_breaking. apply existsb_exists. exists (mk_diff l c info). split; assumption. Qed.

(* the exit status of `swagger diff` (text format, no ignore file) is then non-zero, with or without --break *)
Lemma add_diff_mk l c info : add_diff (mk_diff l c info) = mk_diff l c info.
Proof. reflexivity. Qed.

Lemma reports_breaking_exit ds only_breaking : reports_breaking ds -> execute_fails false only_breaking ds [] = true.
Proof.
  intros [l [c [info [Hin Hb]]]].
  assert (In (mk_diff l c info) (filter_ignores ds [])) as Hin'.
  { unfold filter_ignores. rewrite <- (add_diff_mk l c info). apply in_map. apply filter_In. split; [exact Hin | reflexivity]. }
  assert (report_compat_fails (filter_ignores ds []) = true) as F.
  { unfold report_compat_fails, breaking_count. apply Nat.ltb_lt.
    assert (In (mk_diff l c info) (filter (fun d => compat_eqb (d_compat d) Breaking) (filter_ignores ds []))) as X
      by (apply filter_In; split; [exact Hin' | exact Hb]).
    destruct (filter _ (filter_ignores ds [])); [contradiction | cbn; lia]. }
  unfold execute_fails. cbn [negb andb]. destruct only_breaking; [exact F|].
  unfold report_all_fails. destruct (filter_ignores ds []); [contradiction | exact F].
Qed.

(* ---------- the loops of analyse_request_params, named ---------- *)
Definition del_loop (root : loc) (params2 : list (str * param)) :=
  fix go (ps : list (str * param)) : res (list sdiff) :=
    match ps with
    | [] => Ok []
    | (n, p) :: r =>
        do rest <- go r;
        if has_key n params2 then Ok rest
        else do t <- type_of_simple (p_simple p);
             Ok (mk_diff (loc_add root (node_of n t))
                   (if p_required p then DeletedRequiredParam else DeletedOptionalParam) [] :: rest)
    end.

Definition chg_loop (fuel : nat) (d1 d2 : defs) (k : str * str) (location : str) (root : loc) (params1 : list (str * param)) :=
  fix go (ps : list (str * param)) (sta : st) : res (list sdiff * st) :=
    match ps with
    | [] => Ok ([], sta)
    | (n, p2) :: r =>
        do h <- match assoc n params1 with
                | Some p1 => compare_params fuel d1 d2 k location n p1 p2 sta
                | None =>
                    do t <- type_of_simple (p_simple p2);
                    Ok ([mk_diff (loc_add root (node_of n t))
                           (if p_required p2 then AddedRequiredParam else AddedOptionalParam) []], sta)
                end;
        do rest <- go r (snd h);
        Ok (fst h ++ fst rest, snd rest)
    end.

Definition param_root (k : str * str) (location : str) : loc :=
  {| l_url := fst k; l_method := snd k; l_response := 0; l_node := Some (leaf (title_of location)) |}.

Definition op_step (fuel : nat) (d1 d2 : defs) (um1 : um_t) (location : str) (k : str * str) (pit2 : pathitem) (op2 : operation) (sta : st)
  : res (list sdiff * st) :=
  match find_um k um1 with
  | None => Ok ([], sta)
  | Some (pit1, op1) =>
      let params1 := get_params (pi_params pit1) (o_params op1) location in
      let params2 := get_params (pi_params pit2) (o_params op2) location in
      let root := param_root k location in
      do deleted <- del_loop root params2 params1;
      do changed <- chg_loop fuel d1 d2 k location root params1 params2 sta;
      Ok (deleted ++ fst changed, snd changed)
  end.

Definition ums_loop (fuel : nat) (d1 d2 : defs) (um1 : um_t) (location : str) :=
  fix ums (es : um_t) (sta : st) : res (list sdiff * st) :=
    match es with
    | [] => Ok ([], sta)
    | (k, (pit2, op2)) :: er =>
        do this <- op_step fuel d1 d2 um1 location k pit2 op2 sta;
        do rest <- ums er (snd this);
        Ok (fst this ++ fst rest, snd rest)
    end.

Definition locs_loop (fuel : nat) (d1 d2 : defs) (um1 um2 : um_t) :=
  fix locs (ls : list str) (sta : st) : res (list sdiff * st) :=
    match ls with
    | [] => Ok ([], sta)
    | location :: lr =>
        do here <- ums_loop fuel d1 d2 um1 location um2 sta;
        do rest <- locs lr (snd here);
        Ok (fst here ++ fst rest, snd rest)
    end.

Lemma analyse_request_params_named fuel d1 d2 um1 um2 sta :
  analyse_request_params fuel d1 d2 um1 um2 sta = locs_loop fuel d1 d2 um1 um2 param_locations sta.
Proof. reflexivity. Qed.

Ltac stepb H :=
  match type of H with
  | bind ?X _ = _ => let E := fresh "E" in destruct X eqn:E; cbn [bind] in H; try discriminate
  end.

(* a removed parameter is reported *)
Lemma del_loop_covers root params2 : forall ps out, del_loop root params2 ps = Ok out ->
  forall n p, In (n, p) ps -> has_key n params2 = false ->
  exists t, type_of_simple (p_simple p) = Ok t /\
            In (mk_diff (loc_add root (node_of n t)) (if p_required p then DeletedRequiredParam else DeletedOptionalParam) []) out.
Proof.
  induction ps as [|[n0 p0] r IH]; intros out H n p Hin HK; [contradiction|].
  cbn [del_loop] in H. fold (del_loop root params2) in H. stepb H.
  destruct Hin as [Eq|Hin].
  - inversion Eq; subst n0 p0. rewrite HK in H. stepb H. inversion H; subst out. eexists. split; [reflexivity | left; reflexivity].
  - destruct (IH _ eq_refl n p Hin HK) as [t [Ht Hi]]. exists t. split; [exact Ht|].
    destruct (has_key n0 params2); [inversion H; subst; exact Hi|].
    stepb H. inversion H; subst out. right. exact Hi.
Qed.

(* every parameter of the second document is either compared with its first declaration or reported as added *)
Lemma chg_loop_covers fuel d1 d2 k location root params1 : forall ps sta out sta',
  chg_loop fuel d1 d2 k location root params1 ps sta = Ok (out, sta') ->
  forall n p2, In (n, p2) ps ->
  match assoc n params1 with
  | Some p1 => exists sa o sb, compare_params fuel d1 d2 k location n p1 p2 sa = Ok (o, sb) /\ incl o out
  | None => exists t, type_of_simple (p_simple p2) = Ok t /\
                      In (mk_diff (loc_add root (node_of n t)) (if p_required p2 then AddedRequiredParam else AddedOptionalParam) []) out
  end.
Proof.
  induction ps as [|[n0 p0] r IH]; intros sta out sta' H n p2 Hin; [contradiction|].
  cbn [chg_loop] in H. fold (chg_loop fuel d1 d2 k location root params1) in H.
  stepb H. destruct a as [hd hs]. cbn [fst snd] in H. stepb H. destruct a as [rd rs]. cbn [fst snd] in H.
  inversion H; subst out sta'. clear H.
  destruct Hin as [Eq|Hin].
  - inversion Eq; subst n0 p0. destruct (assoc n params1) as [p1|].
    + exists sta, hd, hs. split; [exact E | apply incl_appl, incl_refl].
    + stepb E. inversion E; subst hd hs. eexists. split; [reflexivity | left; reflexivity].
  - specialize (IH _ _ _ E0 n p2 Hin). destruct (assoc n params1) as [p1|].
    + destruct IH as [sa [o [sb [Hc Hi]]]]. exists sa, o, sb. split; [exact Hc | apply incl_appr; exact Hi].
    + destruct IH as [t [Ht Hi]]. exists t. split; [exact Ht | apply in_or_app; right; exact Hi].
Qed.

Lemma ums_loop_covers fuel d1 d2 um1 location : forall es sta out sta',
  ums_loop fuel d1 d2 um1 location es sta = Ok (out, sta') ->
  forall k pit2 op2, In (k, (pit2, op2)) es ->
  exists sa o sb, op_step fuel d1 d2 um1 location k pit2 op2 sa = Ok (o, sb) /\ incl o out.
Proof.
  induction es as [|[k0 [pit0 op0]] er IH]; intros sta out sta' H k pit2 op2 Hin; [contradiction|].
  cbn [ums_loop] in H. fold (ums_loop fuel d1 d2 um1 location) in H.
  stepb H. destruct a as [hd hs]. cbn [fst snd] in H. stepb H. destruct a as [rd rs]. cbn [fst snd] in H.
  inversion H; subst out sta'. clear H.
  destruct Hin as [Eq|Hin].
  - inversion Eq; subst k0 pit0 op0. exists sta, hd, hs. split; [exact E | apply incl_appl, incl_refl].
  - destruct (IH _ _ _ E0 k pit2 op2 Hin) as [sa [o [sb [Hc Hi]]]]. exists sa, o, sb. split; [exact Hc | apply incl_appr; exact Hi].
Qed.

Lemma locs_loop_covers fuel d1 d2 um1 um2 : forall ls sta out sta',
  locs_loop fuel d1 d2 um1 um2 ls sta = Ok (out, sta') ->
  forall location, In location ls ->
  exists sa o sb, ums_loop fuel d1 d2 um1 location um2 sa = Ok (o, sb) /\ incl o out.
Proof.
  induction ls as [|l0 lr IH]; intros sta out sta' H location Hin; [contradiction|].
  cbn [locs_loop] in H. fold (locs_loop fuel d1 d2 um1 um2) in H.
  stepb H. destruct a as [hd hs]. cbn [fst snd] in H. stepb H. destruct a as [rd rs]. cbn [fst snd] in H.
  inversion H; subst out sta'. clear H.
  destruct Hin as [Eq|Hin].
  - subst l0. exists sta, hd, hs. split; [exact E | apply incl_appl, incl_refl].
  - destruct (IH _ _ _ E0 location Hin) as [sa [o [sb [Hc Hi]]]]. exists sa, o, sb. split; [exact Hc | apply incl_appr; exact Hi].
Qed.

(* the request walk, whole: for every location, every operation present in both documents *)
Theorem request_params_cover fuel d1 d2 (um1 um2 : um_t) sta ds sta' :
  analyse_request_params fuel d1 d2 um1 um2 sta = Ok (ds, sta') ->
  forall location k pit2 op2 pit1 op1,
  In location param_locations -> In (k, (pit2, op2)) um2 -> find_um k um1 = Some (pit1, op1) ->
  let params1 := get_params (pi_params pit1) (o_params op1) location in
  let params2 := get_params (pi_params pit2) (o_params op2) location in
  let root := param_root k location in
  (forall n p, In (n, p) params1 -> has_key n params2 = false ->
     exists t, type_of_simple (p_simple p) = Ok t /\
               In (mk_diff (loc_add root (node_of n t)) (if p_required p then DeletedRequiredParam else DeletedOptionalParam) []) ds) /\
  (forall n p2, In (n, p2) params2 ->
     match assoc n params1 with
     | Some p1 => exists sa o sb, compare_params fuel d1 d2 k location n p1 p2 sa = Ok (o, sb) /\ incl o ds
     | None => exists t, type_of_simple (p_simple p2) = Ok t /\
                         In (mk_diff (loc_add root (node_of n t)) (if p_required p2 then AddedRequiredParam else AddedOptionalParam) []) ds
     end).
Proof.
  intros H location k pit2 op2 pit1 op1 Hl Hu Hf params1 params2 root.
  rewrite analyse_request_params_named in H.
  destruct (locs_loop_covers _ _ _ _ _ _ _ _ _ H location Hl) as [sa [o [sb [Hums Hio]]]].
  destruct (ums_loop_covers _ _ _ _ _ _ _ _ _ Hums k pit2 op2 Hu) as [sa2 [o2 [sb2 [Hop Hio2]]]].
  unfold op_step in Hop. rewrite Hf in Hop. fold params1 params2 root in Hop.
  stepb Hop. stepb Hop. destruct a0 as [cd cs]. cbn [fst snd] in Hop. inversion Hop; subst o2 sb2. clear Hop.
  assert (incl (a ++ cd) ds) as Hall by (intros x Hx; apply Hio, Hio2, Hx).
  split.
  - intros n p Hin HK. destruct (del_loop_covers _ _ _ _ E n p Hin HK) as [t [Ht Hi]].
    exists t. split; [exact Ht | apply Hall, in_or_app; left; exact Hi].
  - intros n p2 Hin. pose proof (chg_loop_covers _ _ _ _ _ _ _ _ _ _ _ E0 n p2 Hin) as X.
    destruct (assoc n params1) as [p1|].
    + destruct X as [sa3 [o3 [sb3 [Hc Hi]]]]. exists sa3, o3, sb3. split; [exact Hc|].
      intros x Hx. apply Hall, in_or_app. right. apply Hi, Hx.
    + destruct X as [t [Ht Hi]]. exists t. split; [exact Ht | apply Hall, in_or_app; right; exact Hi].
Qed.

(* ---------- what compare_params contributes ---------- *)
Lemma compare_params_parts fuel d1 d2 k location n p1 p2 sta out sta' :
  compare_params fuel d1 d2 k location n p1 p2 sta = Ok (out, sta') ->
  exists child2 tds,
    compare_props (for_simple (p_simple p1)) (for_simple (p_simple p2)) = Ok tds /\
    l_response child2 = 0%Z /\
    incl (add_diffs child2 tds ++ add_diffs child2 (check_required (p_required p1) (p_required p2))) out.
Proof.
  unfold compare_params. intros H.
  stepb H. destruct a as [[child1 bodyd] sta1]. stepb H. stepb H. stepb H.
  inversion H; subst out sta'. clear H.
  exists (loc_add child1 (node_of n a0)), a. split; [reflexivity|]. split.
  - (* the location keeps the response code 0 of um_loc *)
    assert (l_response child1 = 0%Z) as R.
    { destruct (p_schema p1) as [s1|]; [destruct (p_schema p2) as [s2|]|]; try (inversion E; reflexivity).
      destruct (is_empty n).
      - cbn [bind] in E. destruct (compare_schema fuel d1 d2 _ s1 s2 sta) as [c| |]; cbn [bind] in E; try discriminate.
        inversion E. reflexivity.
      - destruct (type_of_props s2) as [r| |]; cbn [bind] in E; try discriminate.
        destruct (compare_schema fuel d1 d2 _ s1 s2 sta) as [c| |]; cbn [bind] in E; try discriminate.
        inversion E. reflexivity. }
    cbn [loc_add l_response]. exact R.
  - intros x Hx. apply in_or_app. right. apply in_or_app. right.
    apply in_app_or in Hx as [Hx|Hx]; apply in_or_app; [left; exact Hx | right; apply in_or_app; left; exact Hx].
Qed.

(* add_diffs keeps every entry that carries a change code, with the compatibility of the request tables at a request location *)
Lemma add_diffs_breaking l tds : l_response l = 0%Z -> breaking_list tds = true -> reports_breaking (add_diffs l tds).
Proof.
  intros R H. apply existsb_exists in H as [t [Hin Hb]].
  apply (reports_breaking_in l (td_change t)
           (if is_empty (td_desc t) then (if str_eqb (td_from t) (td_to t) then [] else td_from t ++ s " -> " ++ td_to t) else td_desc t)).
  - unfold add_diffs. change (mk_diff l (td_change t) _) with (add_type_diff l t). apply in_map. apply filter_In. split; [exact Hin|].
    unfold code_is_nochange. destruct (code_eqb (td_change t) NoChangeDetected) eqn:Ec; [|reflexivity].
    apply N.eqb_eq in Ec. exfalso. revert Hb Ec. destruct (td_change t); vm_compute; congruence.
  - unfold is_breaking, mk_diff, add_diff. cbn [d_compat d_loc d_code]. rewrite R. exact Hb.
Qed.

(* ---------- the response walk, named ---------- *)
Definition no_content_node (r : response) : res node :=
  match r_schema r with Some x => body_node x | None => Ok (leaf (s "NoContent")) end.

Definition rdel_loop (k : str * str) (resp2 : list (Z * response)) :=
  fix go (rs : list (Z * response)) : res (list sdiff) :=
    match rs with
    | [] => Ok []
    | (c, r1) :: r =>
        do rest <- go r;
        match assocZ c resp2 with
        | Some _ => Ok rest
        | None =>
            do n <- match r_schema r1 with Some x => body_node x | None => Ok (leaf (s "NoContent")) end;
            Ok (mk_diff (resp_loc k c n) DeletedResponse [] :: rest)
        end
    end.

Definition rchg_loop (fuel : nat) (d1 d2 : defs) (k : str * str) (resp1 : list (Z * response)) :=
  fix go (rs : list (Z * response)) (sta : st) : res (list sdiff * st) :=
    match rs with
    | [] => Ok ([], sta)
    | (c, r2) :: r =>
        do h <- match assocZ c resp1 with
                | Some r1 => analyse_response fuel d1 d2 k c r1 r2 sta
                | None =>
                    do n <- match r_schema r2 with Some x => body_node x | None => Ok (leaf (s "NoContent")) end;
                    Ok ([mk_diff (resp_loc k c n) AddedResponse []], sta)
                end;
        do rest <- go r (snd h);
        Ok (fst h ++ fst rest, snd rest)
    end.

Definition rop_step (fuel : nat) (d1 d2 : defs) (um1 : um_t) (k : str * str) (op2 : operation) (sta : st) : res (list sdiff * st) :=
  match find_um k um1 with
  | None => Ok ([], sta)
  | Some (_, op1) =>
      do deleted <- rdel_loop k (o_responses op2) (o_responses op1);
      do changed <- rchg_loop fuel d1 d2 k (o_responses op1) (sort_zkv (o_responses op2)) sta;
      Ok (deleted ++ fst changed, snd changed)
  end.

Definition rums_loop (fuel : nat) (d1 d2 : defs) (um1 : um_t) :=
  fix ums (es : um_t) (sta : st) : res (list sdiff * st) :=
    match es with
    | [] => Ok ([], sta)
    | (k, (_, op2)) :: er =>
        do this <- rop_step fuel d1 d2 um1 k op2 sta;
        do rest <- ums er (snd this);
        Ok (fst this ++ fst rest, snd rest)
    end.

Lemma analyse_response_params_named fuel d1 d2 um1 um2 sta :
  analyse_response_params fuel d1 d2 um1 um2 sta = rums_loop fuel d1 d2 um1 um2 sta.
Proof. reflexivity. Qed.

Lemma rdel_loop_covers k resp2 : forall rs out, rdel_loop k resp2 rs = Ok out ->
  forall c r1, In (c, r1) rs -> assocZ c resp2 = None ->
  exists n, In (mk_diff (resp_loc k c n) DeletedResponse []) out.
Proof.
  induction rs as [|[c0 r0] r IH]; intros out H c r1 Hin HN; [contradiction|].
  cbn [rdel_loop] in H. fold (rdel_loop k resp2) in H. stepb H.
  destruct Hin as [Eq|Hin].
  - inversion Eq; subst c0 r0. rewrite HN in H. stepb H. inversion H; subst out. eexists. left. reflexivity.
  - destruct (IH _ eq_refl c r1 Hin HN) as [n Hi]. exists n.
    destruct (assocZ c0 resp2); [inversion H; subst; exact Hi|].
    stepb H. inversion H; subst out. right. exact Hi.
Qed.

Lemma rchg_loop_covers fuel d1 d2 k resp1 : forall rs sta out sta',
  rchg_loop fuel d1 d2 k resp1 rs sta = Ok (out, sta') ->
  forall c r2 r1, In (c, r2) rs -> assocZ c resp1 = Some r1 ->
  exists sa o sb, analyse_response fuel d1 d2 k c r1 r2 sa = Ok (o, sb) /\ incl o out.
Proof.
  induction rs as [|[c0 r0] r IH]; intros sta out sta' H c r2 r1 Hin HS; [contradiction|].
  cbn [rchg_loop] in H. fold (rchg_loop fuel d1 d2 k resp1) in H.
  stepb H. destruct a as [hd hs]. cbn [fst snd] in H. stepb H. destruct a as [rd rs0]. cbn [fst snd] in H.
  inversion H; subst out sta'. clear H.
  destruct Hin as [Eq|Hin].
  - inversion Eq; subst c0 r0. rewrite HS in E. exists sta, hd, hs. split; [exact E | apply incl_appl, incl_refl].
  - destruct (IH _ _ _ E0 c r2 r1 Hin HS) as [sa [o [sb [Hc Hi]]]]. exists sa, o, sb. split; [exact Hc | apply incl_appr; exact Hi].
Qed.

Lemma rums_loop_covers fuel d1 d2 um1 : forall es sta out sta',
  rums_loop fuel d1 d2 um1 es sta = Ok (out, sta') ->
  forall k pit2 op2, In (k, (pit2, op2)) es ->
  exists sa o sb, rop_step fuel d1 d2 um1 k op2 sa = Ok (o, sb) /\ incl o out.
Proof.
  induction es as [|[k0 [pit0 op0]] er IH]; intros sta out sta' H k pit2 op2 Hin; [contradiction|].
  cbn [rums_loop] in H. fold (rums_loop fuel d1 d2 um1) in H.
  stepb H. destruct a as [hd hs]. cbn [fst snd] in H. stepb H. destruct a as [rd rs]. cbn [fst snd] in H.
  inversion H; subst out sta'. clear H.
  destruct Hin as [Eq|Hin].
  - inversion Eq; subst k0 pit0 op0. exists sta, hd, hs. split; [exact E | apply incl_appl, incl_refl].
  - destruct (IH _ _ _ E0 k pit2 op2 Hin) as [sa [o [sb [Hc Hi]]]]. exists sa, o, sb. split; [exact Hc | apply incl_appr; exact Hi].
Qed.

Lemma sort_zkv_in_rev {A} (l : list (Z * A)) e : In e l -> In e (sort_zkv l).
Proof.
  assert (forall (x : Z * A) l0 e0, e0 = x \/ In e0 l0 -> In e0 (insert_zkv x l0)) as INS.
  { intros x l0. induction l0 as [|y r IH]; intros e0 H; cbn [insert_zkv].
    - destruct H as [->|[]]. left. reflexivity.
    - destruct (Z.leb (fst x) (fst y)).
      + destruct H as [->|H]; [left; reflexivity | right; exact H].
      + destruct H as [->|[->|H]]; [right; apply IH; left; reflexivity | left; reflexivity | right; apply IH; right; exact H]. }
  induction l as [|x r IH]; intros H; [contradiction|]. cbn [sort_zkv fold_right]. apply INS.
  destruct H as [->|H]; [left; reflexivity | right; apply IH, H].
Qed.

(* a removed response header is reported by analyse_response *)
Lemma analyse_response_header_deleted fuel d1 d2 k c r1 r2 sta out sta' :
  analyse_response fuel d1 d2 k c r1 r2 sta = Ok (out, sta') ->
  forall n h1, In (n, h1) (r_headers r1) -> has_key n (r_headers r2) = false ->
  exists t, In (mk_diff (loc_add (resp_loc k c (leaf (s "Headers"))) (node_of n t)) DeletedResponseHeader []) out.
Proof.
  unfold analyse_response. intros H n h1 Hin HK.
  stepb H. stepb H. stepb H. stepb H. destruct a2 as [bd bs]. cbn [fst snd] in H. inversion H; subst out sta'. clear H.
  match type of E0 with ?G (r_headers r1) = _ =>
    assert (forall hs o, G hs = Ok o -> In (n, h1) hs ->
            exists t, In (mk_diff (loc_add (resp_loc k c (leaf (s "Headers"))) (node_of n t)) DeletedResponseHeader []) o) as L end.
  { induction hs as [|[n0 h0] r IH]; intros o Ho Hi; [contradiction|].
    stepb Ho. destruct Hi as [Eq|Hi].
    - inversion Eq; subst n0 h0. rewrite HK in Ho. stepb Ho. inversion Ho; subst o. eexists. left. reflexivity.
    - destruct (IH _ eq_refl Hi) as [t Ht]. exists t.
      destruct (has_key n0 (r_headers r2)); [inversion Ho; subst; exact Ht|].
      stepb Ho. inversion Ho; subst o. right. exact Ht. }
  destruct (L _ _ E0 Hin) as [t Ht]. exists t. apply in_or_app. right. apply in_or_app. left. exact Ht.
Qed.

Theorem response_params_cover fuel d1 d2 (um1 um2 : um_t) sta ds sta' :
  analyse_response_params fuel d1 d2 um1 um2 sta = Ok (ds, sta') ->
  forall k pit2 op2 pit1 op1, In (k, (pit2, op2)) um2 -> find_um k um1 = Some (pit1, op1) ->
  (forall c r1, In (c, r1) (o_responses op1) -> assocZ c (o_responses op2) = None ->
     exists n, In (mk_diff (resp_loc k c n) DeletedResponse []) ds) /\
  (forall c r2 r1, In (c, r2) (o_responses op2) -> assocZ c (o_responses op1) = Some r1 ->
     exists sa o sb, analyse_response fuel d1 d2 k c r1 r2 sa = Ok (o, sb) /\ incl o ds).
Proof.
  intros H k pit2 op2 pit1 op1 Hu Hf. rewrite analyse_response_params_named in H.
  destruct (rums_loop_covers _ _ _ _ _ _ _ _ H k pit2 op2 Hu) as [sa [o [sb [Hop Hio]]]].
  unfold rop_step in Hop. rewrite Hf in Hop. stepb Hop. stepb Hop. destruct a0 as [cd cs]. cbn [fst snd] in Hop.
  inversion Hop; subst o sb. clear Hop. split.
  - intros c r1 Hin HN. destruct (rdel_loop_covers _ _ _ _ E c r1 Hin HN) as [n Hi]. exists n. apply Hio, in_or_app. left. exact Hi.
  - intros c r2 r1 Hin HS. destruct (rchg_loop_covers _ _ _ _ _ _ _ _ _ E0 c r2 r1 (sort_zkv_in_rev _ _ Hin) HS) as [sa3 [o3 [sb3 [Hc Hi]]]].
    exists sa3, o3, sb3. split; [exact Hc|]. intros x Hx. apply Hio, in_or_app. right. apply Hi, Hx.
Qed.

(* ---------- the whole analysis ---------- *)
Lemma analyse_parts fuel a b ds : analyse fuel a b = Ok ds ->
  exists rq s1 rs s2 df s3,
    analyse_request_params fuel (sw_defs a) (sw_defs b) (url_methods a) (url_methods b) st0 = Ok (rq, s1) /\
    analyse_response_params fuel (sw_defs a) (sw_defs b) (url_methods a) (url_methods b) s1 = Ok (rs, s2) /\
    analyse_definitions fuel (sw_defs a) (sw_defs b) s2 = Ok (df, s3) /\
    ds = analyse_metadata a b ++ analyse_endpoints (url_methods a) (url_methods b) ++ rq ++
         analyse_endpoint_data (url_methods a) (url_methods b) ++ rs ++ df.
Proof.
  unfold analyse. intros H. stepb H. destruct a0 as [rq s1]. cbn [fst snd] in H. stepb H. destruct a0 as [rs s2]. cbn [fst snd] in H.
  stepb H. destruct a0 as [df s3]. cbn [fst snd] in H. inversion H; subst ds.
  exists rq, s1, rs, s2, df, s3. repeat split; assumption.
Qed.

Lemma endpoint_deleted_in (um1 um2 : um_t) k pit op : In (k, (pit, op)) um1 -> find_um k um2 = None ->
  In (mk_diff (um_loc k) (if options_deprecated pit || o_deprecated op then DeletedDeprecatedEndpoint else DeletedEndpoint) [])
     (analyse_endpoints um1 um2).
Proof.
  intros Hin HN. unfold analyse_endpoints. apply in_or_app. left. apply in_flat_map.
  exists (k, (pit, op)). split; [exact Hin|]. cbn. rewrite HN. left. reflexivity.
Qed.

Definition in_request (x : list sdiff) (ds : list sdiff) (rq : list sdiff) a b rs df : Prop :=
  ds = analyse_metadata a b ++ analyse_endpoints (url_methods a) (url_methods b) ++ rq ++
       analyse_endpoint_data (url_methods a) (url_methods b) ++ rs ++ df.

(* 1. an endpoint of the old document that the new one lacks (and that was not deprecated) *)
Theorem doc_endpoint_removed fuel a b ds k pit op :
  analyse fuel a b = Ok ds -> In (k, (pit, op)) (url_methods a) -> find_um k (url_methods b) = None ->
  options_deprecated pit || o_deprecated op = false -> reports_breaking ds.
Proof.
  intros H Hin HN Hd. destruct (analyse_parts _ _ _ _ H) as [rq [s1 [rs [s2 [df [s3 [_ [_ [_ ->]]]]]]]]].
  pose proof (endpoint_deleted_in _ _ _ _ _ Hin HN) as X. rewrite Hd in X.
  eapply reports_breaking_in; [apply in_or_app; right; apply in_or_app; left; exact X | vm_compute; reflexivity].
Qed.

Section RequestClauses.
  Variables (fuel : nat) (a b : swagger) (ds : list sdiff).
  Hypothesis Hrun : analyse fuel a b = Ok ds.
  Variables (location : str) (k : str * str) (pit1 pit2 : pathitem) (op1 op2 : operation).
  Hypothesis Hloc : In location param_locations.
  Hypothesis Hin2 : In (k, (pit2, op2)) (url_methods b).
  Hypothesis Hin1 : find_um k (url_methods a) = Some (pit1, op1).
  Let params1 := get_params (pi_params pit1) (o_params op1) location.
  Let params2 := get_params (pi_params pit2) (o_params op2) location.

  Lemma request_cover_ds :
    (forall n p, In (n, p) params1 -> has_key n params2 = false ->
       exists t, In (mk_diff (loc_add (param_root k location) (node_of n t)) (if p_required p then DeletedRequiredParam else DeletedOptionalParam) []) ds) /\
    (forall n p2, In (n, p2) params2 ->
       match assoc n params1 with
       | Some p1 => exists sa o sb, compare_params fuel (sw_defs a) (sw_defs b) k location n p1 p2 sa = Ok (o, sb) /\ incl o ds
       | None => exists t, In (mk_diff (loc_add (param_root k location) (node_of n t)) (if p_required p2 then AddedRequiredParam else AddedOptionalParam) []) ds
       end).
  Proof.
    destruct (analyse_parts _ _ _ _ Hrun) as [rq [s1 [rs [s2 [df [s3 [Hrq [_ [_ Hds]]]]]]]]].
    destruct (request_params_cover _ _ _ _ _ _ _ _ Hrq location k pit2 op2 pit1 op1 Hloc Hin2 Hin1) as [D C].
    assert (incl rq ds) as Hi.
    { rewrite Hds. intros x Hx. apply in_or_app. right. apply in_or_app. right. apply in_or_app. left. exact Hx. }
    split.
    - intros n p Hn HK. destruct (D n p Hn HK) as [t [_ Ht]]. exists t. apply Hi, Ht.
    - intros n p2 Hn. specialize (C n p2 Hn). fold params1 in C. fold params1. destruct (assoc n params1) as [p1|].
      + destruct C as [sa [o [sb [Hc Ho]]]]. exists sa, o, sb. split; [exact Hc | intros x Hx; apply Hi, Ho, Hx].
      + destruct C as [t [_ Ht]]. exists t. apply Hi, Ht.
  Qed.

  (* 2. a parameter the new document demands and the old one did not know *)
  Theorem doc_required_param_added n p2 :
    In (n, p2) params2 -> assoc n params1 = None -> p_required p2 = true -> reports_breaking ds.
  Proof.
    intros Hn HN Hr. destruct request_cover_ds as [_ C]. specialize (C n p2 Hn). rewrite HN in C. destruct C as [t Ht].
    rewrite Hr in Ht. eapply reports_breaking_in; [exact Ht | vm_compute; reflexivity].
  Qed.

  (* 3. a parameter that is optional in the old document and required in the new one *)
  Theorem doc_param_became_required n p1 p2 :
    In (n, p2) params2 -> assoc n params1 = Some p1 -> p_required p1 = false -> p_required p2 = true -> reports_breaking ds.
  Proof.
    intros Hn HS R1 R2. destruct request_cover_ds as [_ C]. specialize (C n p2 Hn). rewrite HS in C.
    destruct C as [sa [o [sb [Hc Ho]]]]. destruct (compare_params_parts _ _ _ _ _ _ _ _ _ _ _ Hc) as [child2 [tds [_ [R Hi]]]].
    apply (reports_breaking_incl (add_diffs child2 (check_required (p_required p1) (p_required p2)))).
    - intros x Hx. apply Ho, Hi, in_or_app. right. exact Hx.
    - apply add_diffs_breaking; [exact R|]. rewrite R1, R2. vm_compute. reflexivity.
  Qed.

  (* 4. a primitive parameter whose new declaration rejects a value the old one accepted: numbers *)
  Theorem doc_numeric_param_narrowed n p1 p2 t v :
    In (n, p2) params2 -> assoc n params1 = Some p1 ->
    si_typ (p_simple p1) = t -> si_typ (p_simple p2) = t -> si_format (p_simple p1) = si_format (p_simple p2) -> wideness t <> None ->
    let x1 := si_vals (p_simple p1) in let x2 := si_vals (p_simple p2) in
    ((v_xmax x1 = v_xmax x2 /\ v_xmin x1 = v_xmin x2 /\ sat_numeric x1 v = true /\ sat_numeric x2 v = false) \/
     (v_xmax x1 = false /\ v_xmax x2 = true) \/ (v_xmin x1 = false /\ v_xmin x2 = true)) ->
    reports_breaking ds.
  Proof.
    intros Hn HS T1 T2 F W x1 x2 HV. destruct request_cover_ds as [_ C]. specialize (C n p2 Hn). rewrite HS in C.
    destruct C as [sa [o [sb [Hc Ho]]]]. destruct (compare_params_parts _ _ _ _ _ _ _ _ _ _ _ Hc) as [child2 [tds [Hcp [R Hi]]]].
    destruct (numeric_schema_sound (for_simple (p_simple p1)) (for_simple (p_simple p2)) t v) as [l [Hl Hb]];
      try reflexivity; try (unfold for_simple; cbn [sc_typ sc_format]; congruence); try exact W.
    { unfold for_simple. cbn [sc_vals]. exact HV. }
    rewrite Hcp in Hl. inversion Hl; subst l.
    apply (reports_breaking_incl (add_diffs child2 tds)).
    - intros x Hx. apply Ho, Hi, in_or_app. left. exact Hx.
    - apply add_diffs_breaking; assumption.
  Qed.

  (* ... and strings: lengths, pattern (any matching engine), enumeration *)
  Theorem doc_string_param_narrowed matches n p1 p2 len v :
    In (n, p2) params2 -> assoc n params1 = Some p1 ->
    si_typ (p_simple p1) = s "string" -> si_typ (p_simple p2) = s "string" -> si_format (p_simple p1) = si_format (p_simple p2) ->
    let x1 := si_vals (p_simple p1) in let x2 := si_vals (p_simple p2) in
    (v_enum x1 = [] -> v_enum x2 = []) ->
    sat_string matches x1 len v = true -> sat_string matches x2 len v = false ->
    reports_breaking ds.
  Proof.
    intros Hn HS T1 T2 F x1 x2 HE S1 S2. destruct request_cover_ds as [_ C]. specialize (C n p2 Hn). rewrite HS in C.
    destruct C as [sa [o [sb [Hc Ho]]]]. destruct (compare_params_parts _ _ _ _ _ _ _ _ _ _ _ Hc) as [child2 [tds [Hcp [R Hi]]]].
    destruct (string_schema_sound matches (for_simple (p_simple p1)) (for_simple (p_simple p2)) len v) as [l [Hl Hb]];
      try reflexivity; try (unfold for_simple; cbn [sc_typ sc_format]; congruence); try assumption.
    rewrite Hcp in Hl. inversion Hl; subst l.
    apply (reports_breaking_incl (add_diffs child2 tds)).
    - intros x Hx. apply Ho, Hi, in_or_app. left. exact Hx.
    - apply add_diffs_breaking; assumption.
  Qed.

  (* 5. a required parameter of the old document that the new one lacks at that location (also: moved to another location) *)
  Theorem doc_param_removed_reported n p :
    In (n, p) params1 -> has_key n params2 = false ->
    exists t, In (mk_diff (loc_add (param_root k location) (node_of n t)) (if p_required p then DeletedRequiredParam else DeletedOptionalParam) []) ds.
  Proof. intros Hn HK. destruct request_cover_ds as [D _]. exact (D n p Hn HK). Qed.
End RequestClauses.

Section ResponseClauses.
  Variables (fuel : nat) (a b : swagger) (ds : list sdiff).
  Hypothesis Hrun : analyse fuel a b = Ok ds.
  Variables (k : str * str) (pit1 pit2 : pathitem) (op1 op2 : operation).
  Hypothesis Hin2 : In (k, (pit2, op2)) (url_methods b).
  Hypothesis Hin1 : find_um k (url_methods a) = Some (pit1, op1).

  Lemma response_cover_ds :
    (forall c r1, In (c, r1) (o_responses op1) -> assocZ c (o_responses op2) = None ->
       exists n, In (mk_diff (resp_loc k c n) DeletedResponse []) ds) /\
    (forall c r2 r1, In (c, r2) (o_responses op2) -> assocZ c (o_responses op1) = Some r1 ->
       exists sa o sb, analyse_response fuel (sw_defs a) (sw_defs b) k c r1 r2 sa = Ok (o, sb) /\ incl o ds).
  Proof.
    destruct (analyse_parts _ _ _ _ Hrun) as [rq [s1 [rs [s2 [df [s3 [_ [Hrs [_ Hds]]]]]]]]].
    destruct (response_params_cover _ _ _ _ _ _ _ _ Hrs k pit2 op2 pit1 op1 Hin2 Hin1) as [D C].
    assert (incl rs ds) as Hi.
    { rewrite Hds. intros x Hx. do 4 (apply in_or_app; right). apply in_or_app. left. exact Hx. }
    split.
    - intros c r1 Hc HN. destruct (D c r1 Hc HN) as [n Hn]. exists n. apply Hi, Hn.
    - intros c r2 r1 Hc HS. destruct (C c r2 r1 Hc HS) as [sa [o [sb [He Ho]]]]. exists sa, o, sb. split; [exact He | intros x Hx; apply Hi, Ho, Hx].
  Qed.

  (* 6. a response code the new document no longer declares *)
  Theorem doc_response_removed c r1 :
    In (c, r1) (o_responses op1) -> assocZ c (o_responses op2) = None -> reports_breaking ds.
  Proof.
    intros Hc HN. destruct response_cover_ds as [D _]. destruct (D c r1 Hc HN) as [n Hn].
    eapply reports_breaking_in; [exact Hn|]. unfold is_breaking, mk_diff, add_diff, resp_loc. cbn [d_compat d_loc d_code l_response].
    destruct (Z.ltb 0 c); vm_compute; reflexivity.
  Qed.

  (* 7. a response header the new document no longer declares *)
  Theorem doc_response_header_removed c r1 r2 n h1 :
    In (c, r2) (o_responses op2) -> assocZ c (o_responses op1) = Some r1 ->
    In (n, h1) (r_headers r1) -> has_key n (r_headers r2) = false -> reports_breaking ds.
  Proof.
    intros Hc HS Hh HK. destruct response_cover_ds as [_ C]. destruct (C c r2 r1 Hc HS) as [sa [o [sb [He Ho]]]].
    destruct (analyse_response_header_deleted _ _ _ _ _ _ _ _ _ _ He n h1 Hh HK) as [t Ht].
    eapply reports_breaking_in; [apply Ho, Ht|]. unfold is_breaking, mk_diff, add_diff, resp_loc, loc_add. cbn [d_compat d_loc d_code l_response].
    destruct (Z.ltb 0 c); vm_compute; reflexivity.
  Qed.
End ResponseClauses.

(* ---------- one level into a request body: a property the new schema adds as required ---------- *)
Lemma properties_for_plain d f x sta : is_ref x = false -> sc_allof x = [] -> properties_for (S f) d x sta = Ok (own_props x, sta).
Proof. intros R A. rewrite properties_for_unfold, R, A. reflexivity. Qed.

Lemma own_props_assoc x name sc : NoDup (keys (sc_props x)) -> In (name, sc) (sc_props x) ->
  assoc name (own_props x) = Some (sc, mem name (sc_required x)).
Proof.
  intros ND Hin. apply In_assoc_NoDup.
  - unfold own_props, keys. rewrite map_map. cbn [fst]. exact ND.
  - unfold own_props. apply in_map_iff. exists (name, sc). split; [reflexivity | exact Hin].
Qed.

(* two inline object schemas without allOf whose own keywords do not differ: every property that only the second one
   has is reported, as a required addition when the second schema requires it *)
Theorem compare_schema_added_property d1 d2 f l x1 x2 sta ds sta' :
  is_ref x1 = false -> is_ref x2 = false -> sc_allof x1 = [] -> sc_allof x2 = [] ->
  compare_props x1 x2 = Ok [] -> is_array_type (sc_typ x1) = false -> NoDup (keys (sc_props x2)) ->
  compare_schema f d1 d2 l x1 x2 sta = Ok (ds, sta') ->
  forall name sc2, In (name, sc2) (sc_props x2) -> has_key name (sc_props x1) = false ->
  exists cl, l_response cl = l_response l /\
             In (mk_diff cl (if mem name (sc_required x2) then AddedRequiredProperty else AddedProperty) []) ds.
Proof.
  intros R1 R2 A1 A2 CP NA ND H name sc2 Hin HK.
  destruct f as [|f]; [discriminate|]. cbn [compare_schema] in H.
  unfold check_ref_change in H. rewrite R1, R2 in H. cbn [andb Bool.eqb bind nonempty] in H.
  rewrite CP in H. cbn [bind nonempty] in H. rewrite NA in H. cbn [bind] in H.
  assert (nonempty (sc_props x2) = true) as NE by (destruct (sc_props x2); [contradiction | reflexivity]).
  rewrite NE in H. rewrite Bool.andb_false_r in H.
  destruct f as [|f]; [discriminate|].
  rewrite (properties_for_plain d1 f x1 sta R1 A1) in H. cbn [bind fst snd] in H.
  rewrite (properties_for_plain d2 f x2 sta R2 A2) in H. cbn [bind fst snd] in H.
  match type of H with bind ?X _ = _ => destruct X as [[cd cs]| |] eqn:Ec end; cbn [bind] in H; try discriminate.
  match type of H with bind (?F (sc_props x2)) _ = _ =>
    assert (forall ps r, (forall e, In e ps -> In e (sc_props x2)) -> F ps = Ok r -> In (name, sc2) ps ->
            exists cl, l_response cl = l_response l /\
                       In (mk_diff cl (if mem name (sc_required x2) then AddedRequiredProperty else AddedProperty) []) r) as ADD end.
  { induction ps as [|[n0 s0] rest IHp]; intros r Hsub Hr Hi; [contradiction|].
    match type of Hr with bind ?X _ = _ => destruct X as [rd| |] eqn:Erest end; cbn [bind] in Hr; try discriminate.
    destruct Hi as [Eq|Hi].
    - inversion Eq; subst n0 s0. rewrite HK in Hr.
      match type of Hr with bind ?X _ = _ => destruct X as [cl| |] eqn:Ecl end; cbn [bind] in Hr; try discriminate.
      rewrite (own_props_assoc x2 name sc2 ND Hin) in Hr. inversion Hr; subst r.
      exists cl. split; [|left; reflexivity].
      unfold add_child_node in Ecl. destruct (type_of_props sc2); cbn [bind] in Ecl; try discriminate. inversion Ecl. reflexivity.
    - destruct (IHp rd (fun e He => Hsub e (or_intror He)) eq_refl Hi) as [cl [Rc Hc]]. exists cl. split; [exact Rc|].
      destruct (has_key n0 (sc_props x1)); [inversion Hr; subst; exact Hc|].
      match type of Hr with bind ?X _ = _ => destruct X as [cl0| |] end; cbn [bind] in Hr; try discriminate.
      inversion Hr; subst r. right. exact Hc. }
  match type of H with bind ?X _ = _ => destruct X as [ad| |] eqn:Ea end; cbn [bind] in H; try discriminate.
  destruct (ADD _ _ (fun e He => He) Ea Hin) as [cl [Rc Hc]]. inversion H; subst ds.
  exists cl. split; [exact Rc|]. rewrite !in_app_iff. tauto.
Qed.

Lemma compare_params_body fuel d1 d2 k location n p1 p2 sta out sta' s1 s2 :
  compare_params fuel d1 d2 k location n p1 p2 sta = Ok (out, sta') -> p_schema p1 = Some s1 -> p_schema p2 = Some s2 ->
  exists cl bd sb, compare_schema fuel d1 d2 cl s1 s2 sta = Ok (bd, sb) /\ l_response cl = 0%Z /\ incl bd out.
Proof.
  unfold compare_params. intros H P1 P2. rewrite P1, P2 in H.
  match type of H with bind (bind ?X _) _ = _ => destruct X as [cl| |] eqn:Ecl end; cbn [bind] in H; try discriminate.
  match type of H with bind (bind ?X _) _ = _ => destruct X as [[bd sb]| |] eqn:Ecs end; cbn [bind fst snd] in H; try discriminate.
  stepb H. stepb H. stepb H. inversion H; subst out sta'. clear H.
  exists cl, bd, sb. split; [exact Ecs|]. split.
  - destruct (is_empty n); [inversion Ecl; reflexivity|].
    destruct (type_of_props s2); cbn [bind] in Ecl; try discriminate. inversion Ecl. reflexivity.
  - intros x Hx. apply in_or_app. right. apply in_or_app. left. exact Hx.
Qed.

Section BodyClause.
  Variables (fuel : nat) (a b : swagger) (ds : list sdiff).
  Hypothesis Hrun : analyse fuel a b = Ok ds.
  Variables (location : str) (k : str * str) (pit1 pit2 : pathitem) (op1 op2 : operation).
  Hypothesis Hloc : In location param_locations.
  Hypothesis Hin2 : In (k, (pit2, op2)) (url_methods b).
  Hypothesis Hin1 : find_um k (url_methods a) = Some (pit1, op1).

  (* 8. a request body (inline object schemas without allOf whose own keywords agree) gains a required property *)
  Theorem doc_body_required_property_added n p1 p2 s1 s2 name sc2 :
    In (n, p2) (get_params (pi_params pit2) (o_params op2) location) ->
    assoc n (get_params (pi_params pit1) (o_params op1) location) = Some p1 ->
    p_schema p1 = Some s1 -> p_schema p2 = Some s2 ->
    is_ref s1 = false -> is_ref s2 = false -> sc_allof s1 = [] -> sc_allof s2 = [] ->
    compare_props s1 s2 = Ok [] -> is_array_type (sc_typ s1) = false -> NoDup (keys (sc_props s2)) ->
    In (name, sc2) (sc_props s2) -> has_key name (sc_props s1) = false -> mem name (sc_required s2) = true ->
    reports_breaking ds.
  Proof.
    intros Hn HS P1 P2 R1 R2 A1 A2 CP NA ND Hp HK Hreq.
    destruct (request_cover_ds fuel a b ds Hrun location k pit1 pit2 op1 op2 Hloc Hin2 Hin1) as [_ C].
    specialize (C n p2 Hn). rewrite HS in C. destruct C as [sa [o [sb [Hc Ho]]]].
    destruct (compare_params_body _ _ _ _ _ _ _ _ _ _ _ _ _ Hc P1 P2) as [cl [bd [sb2 [Hcs [Rcl Hi]]]]].
    destruct (compare_schema_added_property _ _ _ _ _ _ _ _ _ R1 R2 A1 A2 CP NA ND Hcs name sc2 Hp HK) as [cl2 [Rc2 Hin]].
    rewrite Hreq in Hin. apply (reports_breaking_in cl2 AddedRequiredProperty []); [apply Ho, Hi, Hin|].
    unfold is_breaking, mk_diff, add_diff. cbn [d_compat d_loc d_code]. rewrite Rc2, Rcl. vm_compute. reflexivity.
  Qed.
End BodyClause.

(* ---------- one level into a schema: a property the new schema no longer has (response bodies: C13's response side) ---------- *)
Lemma sort_kv_in_rev {A} (l : list (str * A)) e : In e l -> In e (sort_kv l).
Proof.
  assert (forall (x : str * A) l0 e0, e0 = x \/ In e0 l0 -> In e0 (insert_kv x l0)) as INS.
  { intros x l0. induction l0 as [|y r IH]; intros e0 H; cbn [insert_kv].
    - destruct H as [->|[]]. left. reflexivity.
    - destruct (str_leb (fst x) (fst y)).
      + destruct H as [->|H]; [left; reflexivity | right; exact H].
      + destruct H as [->|[->|H]]; [right; apply IH; left; reflexivity | left; reflexivity | right; apply IH; right; exact H]. }
  induction l as [|x r IH]; intros H; [contradiction|]. cbn [sort_kv fold_right]. apply INS.
  destruct H as [->|H]; [left; reflexivity | right; apply IH, H].
Qed.

Theorem compare_schema_deleted_property d1 d2 f l x1 x2 sta ds sta' :
  is_ref x1 = false -> is_ref x2 = false -> sc_allof x1 = [] -> sc_allof x2 = [] ->
  compare_props x1 x2 = Ok [] -> is_array_type (sc_typ x1) = false ->
  compare_schema f d1 d2 l x1 x2 sta = Ok (ds, sta') ->
  forall name sc1, In (name, sc1) (sc_props x1) -> has_key name (sc_props x2) = false ->
  exists cl, l_response cl = l_response l /\ In (mk_diff cl DeletedProperty []) ds.
Proof.
  intros R1 R2 A1 A2 CP NA H name sc1 Hin HK.
  destruct f as [|f]; [discriminate|]. cbn [compare_schema] in H.
  unfold check_ref_change in H. rewrite R1, R2 in H. cbn [andb Bool.eqb bind nonempty] in H.
  rewrite CP in H. cbn [bind nonempty] in H. rewrite NA in H. cbn [bind] in H.
  assert (nonempty (sc_props x1) = true) as NE by (destruct (sc_props x1); [contradiction | reflexivity]).
  rewrite NE in H. cbn [negb andb] in H.
  destruct f as [|f]; [discriminate|].
  rewrite (properties_for_plain d1 f x1 sta R1 A1) in H. cbn [bind fst snd] in H.
  rewrite (properties_for_plain d2 f x2 sta R2 A2) in H. cbn [bind fst snd] in H.
  assert (assoc name (own_props x2) = None) as AN.
  { apply assoc_None_keys. unfold own_props, keys. rewrite map_map. cbn [fst]. intros X.
    assert (has_key name (sc_props x2) = true) as Y by (apply has_key_keys; exact X). congruence. }
  match type of H with bind (?F (sort_kv (own_props x1)) sta) _ = _ =>
    assert (forall ps sa r, F ps sa = Ok r -> forall rq, In (name, (sc1, rq)) ps ->
            exists cl, l_response cl = l_response l /\ In (mk_diff cl DeletedProperty []) (fst r)) as LOOP end.
  { induction ps as [|[n0 [s0 q0]] rest IHp]; intros sa r Hr rq Hi; [contradiction|].
    match type of Hr with bind ?X _ = _ => destruct X as [cl| |] eqn:Ecl end; cbn [bind] in Hr; try discriminate.
    destruct Hi as [Eq|Hi].
    - inversion Eq; subst n0 s0 q0. rewrite AN in Hr. cbn [bind fst snd] in Hr.
      match type of Hr with bind ?X _ = _ => destruct X as [[rd rs]| |] eqn:Erest end; cbn [bind fst snd] in Hr; try discriminate.
      inversion Hr; subst r. exists cl. split; [|left; reflexivity].
      unfold add_child_node in Ecl. destruct (type_of_props sc1); cbn [bind] in Ecl; try discriminate. inversion Ecl. reflexivity.
    - match type of Hr with bind ?X _ = _ => destruct X as [[hd hs]| |] eqn:Eh end; cbn [bind fst snd] in Hr; try discriminate.
      match type of Hr with bind ?X _ = _ => destruct X as [[rd rs]| |] eqn:Erest end; cbn [bind fst snd] in Hr; try discriminate.
      destruct (IHp _ _ Erest rq Hi) as [cl2 [Rc Hc]]. inversion Hr; subst r. exists cl2. split; [exact Rc|].
      cbn [fst]. apply in_or_app. right. exact Hc. }
  match type of H with bind ?X _ = _ => destruct X as [[cd cs]| |] eqn:Ec end; cbn [bind] in H; try discriminate.
  assert (In (name, (sc1, mem name (sc_required x1))) (sort_kv (own_props x1))) as Hs.
  { apply sort_kv_in_rev. unfold own_props. apply in_map_iff. exists (name, sc1). split; [reflexivity | exact Hin]. }
  destruct (LOOP _ _ _ Ec _ Hs) as [cl [Rc Hc]]. cbn [fst] in Hc.
  match type of H with bind ?X _ = _ => destruct X as [ad| |] eqn:Ea end; cbn [bind] in H; try discriminate.
  inversion H; subst ds. exists cl. split; [exact Rc|]. rewrite !in_app_iff. tauto.
Qed.

Lemma analyse_response_body fuel d1 d2 k c r1 r2 sta out sta' x1 x2 :
  analyse_response fuel d1 d2 k c r1 r2 sta = Ok (out, sta') -> r_schema r1 = Some x1 -> r_schema r2 = Some x2 ->
  exists n bd sb, compare_schema fuel d1 d2 (resp_loc k c n) x1 x2 sta = Ok (bd, sb) /\ incl bd out.
Proof.
  unfold analyse_response. intros H S1 S2. rewrite S1, S2 in H.
  stepb H. stepb H. stepb H. cbn [bind] in H.
  match type of H with bind ?X _ = _ => destruct X as [[bd sb]| |] eqn:Ecs end; cbn [bind fst snd] in H; try discriminate.
  inversion H; subst out sta'. exists a1, bd, sb. split; [exact Ecs|].
  intros x Hx. rewrite !in_app_iff. tauto.
Qed.

Section ResponseBodyClause.
  Variables (fuel : nat) (a b : swagger) (ds : list sdiff).
  Hypothesis Hrun : analyse fuel a b = Ok ds.
  Variables (k : str * str) (pit1 pit2 : pathitem) (op1 op2 : operation).
  Hypothesis Hin2 : In (k, (pit2, op2)) (url_methods b).
  Hypothesis Hin1 : find_um k (url_methods a) = Some (pit1, op1).

  (* 9. a response body (inline object schemas without allOf whose own keywords agree) loses a property *)
  Theorem doc_response_property_removed c r1 r2 x1 x2 name sc1 :
    In (c, r2) (o_responses op2) -> assocZ c (o_responses op1) = Some r1 ->
    r_schema r1 = Some x1 -> r_schema r2 = Some x2 ->
    is_ref x1 = false -> is_ref x2 = false -> sc_allof x1 = [] -> sc_allof x2 = [] ->
    compare_props x1 x2 = Ok [] -> is_array_type (sc_typ x1) = false ->
    In (name, sc1) (sc_props x1) -> has_key name (sc_props x2) = false ->
    reports_breaking ds.
  Proof.
    intros Hc HS S1 S2 R1 R2 A1 A2 CP NA Hp HK.
    destruct (response_cover_ds fuel a b ds Hrun k pit1 pit2 op1 op2 Hin2 Hin1) as [_ C].
    destruct (C c r2 r1 Hc HS) as [sa [o [sb [He Ho]]]].
    destruct (analyse_response_body _ _ _ _ _ _ _ _ _ _ _ _ He S1 S2) as [n [bd [sb2 [Hcs Hi]]]].
    destruct (compare_schema_deleted_property _ _ _ _ _ _ _ _ _ R1 R2 A1 A2 CP NA Hcs name sc1 Hp HK) as [cl [Rc Hin]].
    apply (reports_breaking_in cl DeletedProperty []); [apply Ho, Hi, Hin|].
    unfold is_breaking, mk_diff, add_diff. cbn [d_compat d_loc d_code]. rewrite Rc. unfold resp_loc. cbn [l_response].
    destruct (Z.ltb 0 c); vm_compute; reflexivity.
  Qed.
End ResponseBodyClause.

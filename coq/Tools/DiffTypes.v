(* Tools/DiffTypes.v — model of diff/node.go, difference_location.go, spec_difference.go (data + String()).
   Definitions only. *)
From GS Require Import Base.Str Gen.GenDiffTables.

Inductive node := Node (field typ : str) (is_array : bool) (child : option node).

Definition n_field (n : node) := let 'Node f _ _ _ := n in f.
Definition n_type (n : node) := let 'Node _ t _ _ := n in t.
Definition n_array (n : node) := let 'Node _ _ a _ := n in a.
Definition n_child (n : node) := let 'Node _ _ _ c := n in c.

Record loc := { l_url : str; l_method : str; l_response : Z; l_node : option node }.

Record sdiff := { d_loc : loc; d_code : code; d_compat : compat; d_info : str }.

Definition leaf (f : str) : node := Node f [] false None.

(* Node.AddLeafNode on a copy *)
Fixpoint add_leaf (n : node) (x : node) : node :=
  match n with
  | Node f t a None => Node f t a (Some x)
  | Node f t a (Some c) => Node f t a (Some (add_leaf c x))
  end.

(* DifferenceLocation.AddNode *)
Definition loc_add (l : loc) (x : node) : loc :=
  {| l_url := l_url l; l_method := l_method l; l_response := l_response l;
     l_node := match l_node l with Some n => Some (add_leaf n x) | None => Some x end |}.

Definition code_eqb (a b : code) : bool := N.eqb (code_idx a) (code_idx b).
Definition compat_eqb (a b : compat) : bool := N.eqb (compat_idx a) (compat_idx b).

Fixpoint node_eqb (a b : node) : bool :=
  match a, b with
  | Node f t ar c, Node f' t' ar' c' =>
      str_eqb f f' && Bool.eqb ar ar' && str_eqb t t' &&
      match c, c' with
      | None, None => true
      | Some x, Some y => node_eqb x y
      | _, _ => false
      end
  end.

Definition onode_eqb (a b : option node) : bool :=
  match a, b with
  | None, None => true
  | Some x, Some y => node_eqb x y
  | _, _ => false
  end.

(* equalLocations *)
Definition loc_eqb (a b : loc) : bool :=
  str_eqb (l_method a) (l_method b) && Z.eqb (l_response a) (l_response b) &&
  str_eqb (l_url a) (l_url b) && onode_eqb (l_node a) (l_node b).

(* SpecDifference.Matches *)
Definition matches (a b : sdiff) : bool :=
  code_eqb (d_code a) (d_code b) && compat_eqb (d_compat a) (d_compat b) &&
  str_eqb (d_info a) (d_info b) && loc_eqb (d_loc a) (d_loc b).

(* getCompatibilityForChange *)
Definition get_compat (c : code) (response : bool) : compat :=
  match for_change c with
  | Some k => k
  | None =>
      let tbl := if response then for_response else for_request in
      match tbl c with Some k => k | None => compat_zero end
  end.

(* SpecDifferences.addDiff: compatibility is recomputed from code and response > 0 *)
Definition add_diff (d : sdiff) : sdiff :=
  {| d_loc := d_loc d; d_code := d_code d;
     d_compat := get_compat (d_code d) (Z.ltb 0 (l_response (d_loc d))); d_info := d_info d |}.

Definition mk_diff (l : loc) (c : code) (info : str) : sdiff :=
  add_diff {| d_loc := l; d_code := c; d_compat := compat_zero; d_info := info |}.

(* Node.String *)
Fixpoint node_string (n : node) : str :=
  match n with
  | Node f t ar c =>
      let name :=
        if ar then f ++ s "<array[" ++ t ++ s "]>"
        else if is_empty t then f else f ++ s "<" ++ t ++ s ">" in
      match c with
      | None => name
      | Some ch => name ++ s "." ++ node_string ch
      end
  end.

Definition code_description (c : code) : str :=
  match code_long c with Some x => x | None => s "UNDEFINED" end.

(* SpecDifference.String *)
Definition diff_string (d : sdiff) : str :=
  let l := d_loc d in
  let is_resp := Z.ltb 0 (l_response l) in
  let has_method := negb (is_empty (l_method l)) in
  let has_url := negb (is_empty (l_url l)) in
  let prefix0 := if has_method then (if has_url then l_url l ++ s ":" ++ l_method l else []) else l_url l in
  let prefix := if has_method && is_resp then prefix0 ++ s " -> " ++ dec_of_Z (l_response l) else prefix0 in
  let direction := if has_method then (if is_resp then s "Response" else s "Request") else [] in
  let where_ := match l_node l with Some n => node_string n | None => [] end in
  join (s " - ") (filter (fun x => negb (is_empty x)) [prefix; direction; where_; code_description (d_code d); d_info d]).

(* Tools/GenServer.v — models of the generated server binder (server/parameter.gotmpl), of the collection-format
   split/join used by server and client (swag.SplitByFormat / JoinByFormat), of the client response dispatch
   (client/response.gotmpl) and of the security gate (builder.gotmpl + runtime/middleware).  Definitions only. *)
From GS Require Import Base.Str.

(* ================= C03: binding one non-body parameter ================= *)
Inductive ptype :=
| PStr (minlen maxlen : option Z) (enum : list str)
| PInt (lo hi : Z)                          (* range of the Go integer type of the format *)
       (min : option Z) (xmin : bool) (max : option Z) (xmax : bool)
| PBool.

Record sparam := { sp_path : bool; sp_header : bool; sp_required : bool; sp_allow_empty : bool; sp_type : ptype }.

Inductive value := VStr (x : str) | VInt (z : Z) | VBool (b : bool).
Inductive outcome := Reject | Absent | Bound (v : value).

(* strconv.ParseInt(raw, 10, bits): optional sign, at least one digit, nothing else *)
Definition is_digit (c : N) : bool := N.leb 48 c && N.leb c 57.
Fixpoint digits_val (x : str) (acc : Z) : option Z :=
  match x with
  | [] => Some acc
  | c :: r => if is_digit c then digits_val r (acc * 10 + Z.of_N (c - 48)) else None
  end.
Definition parse_int_go (x : str) : option Z :=
  match x with
  | [] => None
  | 45%N :: r => match r with [] => None | _ => option_map Z.opp (digits_val r 0) end
  | 43%N :: r => match r with [] => None | _ => digits_val r 0 end
  | _ => digits_val x 0
  end.

(* swag.ConvertBool never fails: a fixed list of spellings means true, everything else false *)
Definition lower (c : N) : N := if N.leb 65 c && N.leb c 90 then (c + 32)%N else c.
Definition truthy : list str :=
  [s "true"; s "1"; s "yes"; s "ok"; s "y"; s "on"; s "selected"; s "checked"; s "t"; s "enabled"].
Definition parse_bool_go (x : str) : bool := mem (map lower x) truthy.

Definition is_continuation (b : N) : bool := N.leb 128 b && N.ltb b 192.
Definition rune_len (x : str) : Z := Z.of_nat (length (filter (fun b => negb (is_continuation b)) x)).

Definition convert (t : ptype) (raw : str) : option value :=
  match t with
  | PStr _ _ _ => Some (VStr raw)
  | PInt lo hi _ _ _ _ =>
      match parse_int_go raw with
      | Some z => if Z.leb lo z && Z.leb z hi then Some (VInt z) else None
      | None => None
      end
  | PBool => Some (VBool (parse_bool_go raw))
  end.

Definition valid_value (t : ptype) (v : value) : bool :=
  match t, v with
  | PStr lo hi en, VStr x =>
      match lo with Some a => Z.leb a (rune_len x) | None => true end &&
      match hi with Some b => Z.leb (rune_len x) b | None => true end &&
      match en with [] => true | _ => mem x en end
  | PInt _ _ mn xl mx xh, VInt z =>
      match mn with Some a => if xl then Z.ltb a z else Z.leb a z | None => true end &&
      match mx with Some b => if xh then Z.ltb z b else Z.leb z b | None => true end
  | PBool, VBool _ => true
  | _, _ => false
  end.

Definition last_raw (rd : list str) : str := last rd [].

(* bind<Param>(rawData, hasKey): the ladder of server/parameter.gotmpl for a non-array parameter *)
Definition bind (p : sparam) (rd : list str) (has_key : bool) : outcome :=
  if negb (sp_path p) && sp_required p && negb has_key then Reject                   (* errors.Required: key missing *)
  else
    let raw := last_raw rd in
    if negb (sp_path p) && sp_required p && negb (sp_allow_empty p) && is_empty raw then Reject   (* validate.RequiredString *)
    else if negb (sp_path p) && (negb (sp_required p) || sp_allow_empty p) && is_empty raw then Absent
    else match convert (sp_type p) raw with
         | None => Reject                                                            (* errors.InvalidType *)
         | Some v => if valid_value (sp_type p) v then Bound v else Reject
         end.

(* what the parameter semantics asks (DESIGN.md section 12), stated without the ladder *)
Definition carried (rd : list str) : str := last_raw rd.
Definition req_ok (p : sparam) (rd : list str) (has_key : bool) : Prop :=
  (sp_path p = false -> sp_required p = true -> has_key = true) /\
  (sp_path p = false -> carried rd = [] -> sp_required p = false \/ sp_allow_empty p = true) /\
  ((sp_path p = true \/ carried rd <> []) -> exists v, convert (sp_type p) (carried rd) = Some v /\ valid_value (sp_type p) v = true).

(* ================= C03/C04: collection formats ================= *)
Definition SPACE : N := 32.
Fixpoint split_on (sep : N) (x cur : str) : list str :=
  match x with
  | [] => [rev cur]
  | c :: r => if N.eqb c sep then rev cur :: split_on sep r [] else split_on sep r (c :: cur)
  end.

Definition is_space (c : N) : bool := N.eqb c 32 || N.eqb c 9 || N.eqb c 10 || N.eqb c 13 || N.eqb c 11 || N.eqb c 12.
Fixpoint trim_left (x : str) : str := match x with c :: r => if is_space c then trim_left r else x | [] => [] end.
Definition trim (x : str) : str := rev (trim_left (rev (trim_left x))).

(* swag.SplitByFormat for a single-character separator: split, trim, drop empty items *)
Definition split_by (sep : N) (raw : str) : list str :=
  filter (fun i => negb (is_empty i)) (map trim (split_on sep raw [])).

(* swag.JoinByFormat *)
Fixpoint join_by (sep : N) (items : list str) : str :=
  match items with
  | [] => []
  | [x] => x
  | x :: r => x ++ sep :: join_by sep r
  end.

(* an item that survives the trip: not empty, no separator inside, no blank at either end *)
Definition clean_item (sep : N) (x : str) : bool :=
  negb (is_empty x) && negb (existsb (N.eqb sep) x) &&
  match x with c :: _ => negb (is_space c) | [] => false end &&
  match rev x with c :: _ => negb (is_space c) | [] => false end.

(* ================= C04: the client's response dispatch ================= *)
Inductive client_result :=
| Typed (code : Z)                    (* the result / error type generated for a declared code *)
| DefaultTyped (code : Z) (success : bool)   (* the generated default response, carrying the actual code *)
| APIError (code : Z).                (* runtime.NewAPIError for a code the spec does not declare *)

Definition client_read (declared : list Z) (has_default : bool) (code : Z) : client_result :=
  if existsb (Z.eqb code) declared then Typed code
  else if has_default then DefaultTyped code (Z.eqb (code / 100) 2)
  else APIError code.

Definition result_code (r : client_result) : Z :=
  match r with Typed c | DefaultTyped c _ | APIError c => c end.

(* ================= C06: the security gate ================= *)
(* a scheme instance of a requirement: name and required scopes; credentials are abstracted by what the scheme's
   authenticator answers for the request: not applicable (no credential presented), error, or a principal *)
Inductive auth_answer := NotApplicable | AuthError | Principal (p : str).

Definition alt := list str.                       (* the schemes one alternative names (AND) *)
Definition requirement := list alt.               (* alternatives (OR) *)

(* effective requirement: the operation's own list if present, else the global one *)
Definition effective (op_sec : option requirement) (global : requirement) : requirement :=
  match op_sec with Some r => r | None => global end.

(* support.go: Authed = len(SecurityRequirementsFor(op)) > 0 *)
Definition authed (r : requirement) : bool := match r with [] => false | _ => true end.

(* one alternative (RouteAuthenticator.Authenticate): every scheme must apply and answer a principal;
   the principal kept is the last one visited *)
Fixpoint auth_alt (answer : str -> auth_answer) (a : alt) (acc : option str) : option (option str) :=
  match a with
  | [] => Some acc
  | sch :: r =>
      match answer sch with
      | Principal p => auth_alt answer r (Some p)
      | _ => None
      end
  end.

(* the alternatives in order (RouteAuthenticators.Authenticate); an empty alternative {} admits anonymously *)
Fixpoint authenticate (answer : str -> auth_answer) (r : requirement) : option (option str) :=
  match r with
  | [] => None
  | a :: rest =>
      match a with
      | [] => match authenticate answer rest with Some x => Some x | None => Some None end
      | _ => match auth_alt answer a None with
             | Some x => Some x
             | None => authenticate answer rest
             end
      end
  end.

(* the gate of server/operation.gotmpl: authorize first (if Authed), bind afterwards *)
Inductive served := Denied | BadRequest | Handler (principal : option str).
Definition serve (answer : str -> auth_answer) (r : requirement) (params_ok : bool) : served :=
  if authed r then
    match authenticate answer r with
    | None => Denied
    | Some p => if params_ok then Handler p else BadRequest
    end
  else if params_ok then Handler None else BadRequest.

(* the property's notion: some alternative has every scheme authenticated *)
Definition alt_sat (answer : str -> auth_answer) (a : alt) : bool :=
  forallb (fun sch => match answer sch with Principal _ => true | _ => false end) a.
Definition sat (answer : str -> auth_answer) (r : requirement) : bool := existsb (alt_sat answer) r.

(* ================= C03: binding an array parameter (one level; server/parameter.gotmpl sliceparambinder) ================= *)
Record aparam := { ap_required : bool; ap_allow_empty : bool; ap_multi : bool; ap_sep : N; ap_elem : ptype;
                   ap_minitems : option Z; ap_maxitems : option Z; ap_unique : bool }.
Inductive aoutcome := AReject | AAbsent | ABound (vs : list value).

(* every item is converted, then validated, in order; the first failure rejects the request *)
Fixpoint conv_items (t : ptype) (l : list str) : option (list value) :=
  match l with
  | [] => Some []
  | x :: r =>
      match convert t x with
      | Some v => if valid_value t v then option_map (cons v) (conv_items t r) else None
      | None => None
      end
  end.

Definition value_eq (a b : value) : bool :=
  match a, b with
  | VStr x, VStr y => str_eqb x y
  | VInt x, VInt y => Z.eqb x y
  | VBool x, VBool y => Bool.eqb x y
  | _, _ => false
  end.
Fixpoint distinct_values (l : list value) : bool :=
  match l with [] => true | x :: r => negb (existsb (value_eq x) r) && distinct_values r end.

(* collectionFormat multi: the occurrences of the key as they are; otherwise the last occurrence, split *)
Definition items_of (p : aparam) (rd : list str) : list str :=
  if ap_multi p then rd else split_by (ap_sep p) (last_raw rd).

Definition count_ok (p : aparam) (vs : list value) : bool :=
  match ap_minitems p with Some a => Z.leb a (Z.of_nat (length vs)) | None => true end &&
  match ap_maxitems p with Some b => Z.leb (Z.of_nat (length vs)) b | None => true end.

(* an empty list of items is refused when the parameter is required, unless allowEmptyValue says otherwise *)
Definition must_have (p : aparam) : bool := ap_required p && negb (ap_allow_empty p).

Definition bind_array (p : aparam) (rd : list str) (has_key : bool) : aoutcome :=
  if ap_required p && negb has_key then AReject
  else match items_of p rd with
       | [] => if must_have p then AReject else AAbsent
       | items =>
           match conv_items (ap_elem p) items with
           | None => AReject
           | Some vs => if count_ok p vs && (if ap_unique p then distinct_values vs else true) then ABound vs else AReject
           end
       end.

(* the array semantics, stated without the ladder *)
Definition areq_ok (p : aparam) (rd : list str) (has_key : bool) : Prop :=
  (ap_required p = true -> has_key = true) /\
  (items_of p rd = [] -> must_have p = false) /\
  (items_of p rd <> [] ->
     exists vs, Forall2 (fun raw v => convert (ap_elem p) raw = Some v /\ valid_value (ap_elem p) v = true) (items_of p rd) vs /\
                count_ok p vs = true /\ (ap_unique p = true -> distinct_values vs = true)).

(* ================= C03: nested array parameters (sliceparambinder applied to itself) ================= *)
(* the items of a level: leaves, or arrays again with their own separator, item counts and uniqueness *)
Inductive nitems :=
| NLeaf (t : ptype)
| NArr (sep : N) (minitems maxitems : option Z) (unique : bool) (inner : nitems).

Inductive nvalue := NV (v : value) | NL (l : list nvalue).

Definition len_ok (mn mx : option Z) (n : nat) : bool :=
  match mn with Some a => Z.leb a (Z.of_nat n) | None => true end &&
  match mx with Some b => Z.leb (Z.of_nat n) b | None => true end.

Fixpoint distinct_texts (l : list str) : bool :=
  match l with [] => true | x :: r => negb (existsb (str_eqb x) r) && distinct_texts r end.

(* one element of a level, given its text.  None: the request is refused; Some None: the element is an array that
   splits to nothing and is left out of the enclosing list; Some (Some v): its value.
   As generated: an inner array is split, its item counts and its uniqueness are checked ON THE PARTS AS WRITTEN,
   and only then are the parts converted, in order *)
Fixpoint conv_elem (it : nitems) (raw : str) {struct it} : option (option nvalue) :=
  match it with
  | NLeaf t =>
      match convert t raw with
      | Some v => if valid_value t v then Some (Some (NV v)) else None
      | None => None
      end
  | NArr sep mn mx u inner =>
      let parts := split_by sep raw in
      if negb (len_ok mn mx (length parts)) then None
      else if u && negb (distinct_texts parts) then None
      else match parts with
           | [] => Some None
           | _ =>
               option_map (fun vs => Some (NL vs))
                 ((fix go (l : list str) : option (list nvalue) :=
                     match l with
                     | [] => Some []
                     | x :: r =>
                         match conv_elem inner x with
                         | None => None
                         | Some None => go r
                         | Some (Some v) => option_map (cons v) (go r)
                         end
                     end) parts)
           end
  end.

Fixpoint nvalue_eqb (a b : nvalue) {struct a} : bool :=
  match a, b with
  | NV x, NV y => value_eq x y
  | NL l, NL m =>
      (fix go (l m : list nvalue) : bool :=
         match l, m with
         | [], [] => true
         | x :: r, y :: r' => nvalue_eqb x y && go r r'
         | _, _ => false
         end) l m
  | _, _ => false
  end.
Fixpoint distinct_nvalues (l : list nvalue) : bool :=
  match l with [] => true | x :: r => negb (existsb (nvalue_eqb x) r) && distinct_nvalues r end.

(* the parameter itself: its elements are described by [np_items]; the outer item counts and uniqueness are checked on
   the converted list (elements that split to nothing are not in it) *)
Record nparam := { np_required : bool; np_allow_empty : bool; np_sep : N; np_items : nitems;
                   np_minitems : option Z; np_maxitems : option Z; np_unique : bool }.
Inductive noutcome := NReject | NAbsent | NBound (vs : list nvalue).

Fixpoint conv_elems (it : nitems) (l : list str) : option (list nvalue) :=
  match l with
  | [] => Some []
  | x :: r =>
      match conv_elem it x with
      | None => None
      | Some None => conv_elems it r
      | Some (Some v) => option_map (cons v) (conv_elems it r)
      end
  end.

Definition bind_nested (p : nparam) (rd : list str) (has_key : bool) : noutcome :=
  if np_required p && negb has_key then NReject
  else match split_by (np_sep p) (last_raw rd) with
       | [] => if np_required p && negb (np_allow_empty p) then NReject else NAbsent
       | parts =>
           match conv_elems (np_items p) parts with
           | None => NReject
           | Some vs =>
               if len_ok (np_minitems p) (np_maxitems p) (length vs) && (if np_unique p then distinct_nvalues vs else true)
               then NBound vs else NReject
           end
       end.

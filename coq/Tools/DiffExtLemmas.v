(* Tools/DiffExtLemmas.v — the extension pass of `swagger diff` on the model of Tools/DiffExt.v:
   identity (a document against itself reports no extension difference, whatever the result of the analysis) and the
   mirror law of the added / deleted checks. *)
From Coq Require Import Lia.
From GS Require Import Base.Str Gen.GenDiffTables Tools.DiffTypes Tools.DiffSpec Tools.DiffModel Tools.DiffModelLemmas Tools.DiffIdentity Tools.DiffExt.

(* ---------- the three checks on one extension table ---------- *)
Lemma has_key_in {A} k (v : A) l : In (k, v) l -> has_key k l = true.
Proof. intros H. apply has_key_keys. unfold keys. apply in_map_iff. exists (k, v). split; [reflexivity | exact H]. Qed.

Lemma check_added_refl e l p : check_added e e l p = [].
Proof. unfold check_added. apply flat_map_nil. intros [k v] Hin. cbn [fst]. rewrite (has_key_in k v e Hin). reflexivity. Qed.

Lemma check_deleted_refl e l p : check_deleted e e l p = [].
Proof. unfold check_deleted. apply flat_map_nil. intros [k v] Hin. cbn [fst]. rewrite (has_key_in k v e Hin). reflexivity. Qed.

Lemma check_changed_refl e l p : NoDup (keys e) -> check_changed e e l p = [].
Proof.
  intros ND. unfold check_changed. apply flat_map_nil. intros [k v] Hin. cbn [fst snd].
  rewrite (In_assoc_NoDup k v e ND Hin). rewrite dval_eqb_refl. reflexivity.
Qed.

Lemma ext_three_refl e l : NoDup (keys e) -> ext_three e e l = [].
Proof. intros ND. unfold ext_three. rewrite check_added_refl, check_deleted_refl, (check_changed_refl e l [] ND). reflexivity. Qed.

(* mirror: what is added from e1 to e2 is what is deleted from e2 to e1, at the same location *)
Definition flip_ext (d : sdiff) : sdiff :=
  mk_diff (d_loc d) (if code_eqb (d_code d) AddedExtension then DeletedExtension
                     else if code_eqb (d_code d) DeletedExtension then AddedExtension else d_code d) (d_info d).

Lemma check_added_mirror e1 e2 l p : map flip_ext (check_added e1 e2 l p) = check_deleted e2 e1 l p.
Proof.
  unfold check_added, check_deleted. induction e2 as [|[k v] r IH]; [reflexivity|].
  cbn [flat_map fst]. rewrite map_app, IH. destruct (has_key k e1); reflexivity.
Qed.

Lemma check_deleted_mirror e1 e2 l p : map flip_ext (check_deleted e1 e2 l p) = check_added e2 e1 l p.
Proof.
  unfold check_added, check_deleted. induction e1 as [|[k v] r IH]; [reflexivity|].
  cbn [flat_map fst]. rewrite map_app, IH. destruct (has_key k e2); reflexivity.
Qed.

(* ---------- well-formed extension views: JSON objects have distinct keys ---------- *)
Definition wf_exts (e : exts) : bool := nodup_keys e.
Definition wf_oexts (o : option exts) : bool := match o with Some e => wf_exts e | None => true end.
Definition wf_named (l : list (str * exts)) : bool := nodup_keys l && forallb (fun kv => wf_exts (snd kv)) l.
Definition wf_xparams (l : list (param * exts)) : bool := forallb (fun pe => wf_exts (snd pe)) l.
Definition wf_xresp (r : xresp) : bool := wf_named (xr_headers r) && forallb (fun se => wf_exts (snd se)) (xr_body r).
Definition wf_xop (o : xop) : bool :=
  wf_exts (xo_ext o) && wf_exts (xo_resp_ext o) && wf_xparams (xo_params o) &&
  nodupZ (map fst (xo_resps o)) && forallb (fun cr => wf_xresp (snd cr)) (xo_resps o).
Definition wf_xitem (i : xitem) : bool := wf_exts (xi_ext i) && wf_xparams (xi_params i).
Definition wf_xdoc (x : xdoc) : bool :=
  wf_exts (xd_ext x) && wf_exts (xd_info x) && wf_oexts (xd_contact x) && wf_oexts (xd_license x) &&
  wf_named (xd_tags x) && wf_named (xd_secdefs x) &&
  nodup_pairs (map fst (xurl_methods x)) &&
  forallb (fun e => wf_xitem (fst (snd e)) && wf_xop (snd (snd e))) (xurl_methods x).

Lemma wf_exts_NoDup e : wf_exts e = true -> NoDup (keys e).
Proof. apply nodup_keys_NoDup. Qed.

Lemma wf_named_parts l : wf_named l = true -> NoDup (keys l) /\ forall k e, In (k, e) l -> NoDup (keys e).
Proof.
  unfold wf_named. intros H. apply andb_prop in H as [H1 H2]. split; [apply nodup_keys_NoDup; exact H1|].
  intros k e Hin. rewrite forallb_forall in H2. apply wf_exts_NoDup. exact (H2 (k, e) Hin).
Qed.

(* ---------- info, tags, security definitions ---------- *)
Lemma ext_info_refl x : wf_exts (xd_info x) = true -> wf_oexts (xd_contact x) = true -> wf_oexts (xd_license x) = true -> ext_info x x = [].
Proof.
  intros W1 W2 W3. unfold ext_info. rewrite (ext_three_refl _ _ (wf_exts_NoDup _ W1)). cbn [app].
  destruct (xd_contact x) as [c|]; [rewrite (ext_three_refl _ _ (wf_exts_NoDup _ W2))|]; cbn [app];
  (destruct (xd_license x) as [li|]; [rewrite (ext_three_refl _ _ (wf_exts_NoDup _ W3))|]; reflexivity).
Qed.

Lemma ext_tags_refl x : wf_named (xd_tags x) = true -> ext_tags x x = [].
Proof.
  intros W. destruct (wf_named_parts _ W) as [ND WE]. unfold ext_tags.
  assert (forall t1 t2, In t1 (xd_tags x) -> In t2 (xd_tags x) -> str_eqb (fst t2) (fst t1) = true -> t1 = t2) as SAME.
  { intros [n1 e1] [n2 e2] H1 H2 E. cbn [fst] in E. apply str_eqb_eq in E. subst n2.
    pose proof (In_assoc_NoDup n1 e1 _ ND H1) as A1. pose proof (In_assoc_NoDup n1 e2 _ ND H2) as A2. congruence. }
  rewrite (flat_map_nil _ (xd_tags x)), (flat_map_nil _ (xd_tags x)); [reflexivity| |].
  - intros t1 H1. apply flat_map_nil. intros t2 H2. destruct (str_eqb (fst t1) (fst t2)) eqn:E; [|reflexivity].
    rewrite str_eqb_sym in E. rewrite (SAME t1 t2 H1 H2 E). apply check_deleted_refl.
  - intros t2 H2. apply flat_map_nil. intros t1 H1. destruct (str_eqb (fst t2) (fst t1)) eqn:E; [|reflexivity].
    rewrite (SAME t1 t2 H1 H2 E). rewrite check_added_refl. destruct t2 as [n2 e2]. cbn [snd].
    rewrite (check_changed_refl e2 _ [] (WE _ _ H2)). reflexivity.
Qed.

Lemma ext_secdefs_refl x : wf_named (xd_secdefs x) = true -> ext_secdefs x x = [].
Proof.
  intros W. destruct (wf_named_parts _ W) as [ND WE]. unfold ext_secdefs.
  rewrite (flat_map_nil _ (xd_secdefs x)), (flat_map_nil _ (xd_secdefs x)); [reflexivity| |].
  - intros [k e] Hin. cbn [fst snd]. rewrite (In_assoc_NoDup k e _ ND Hin). apply check_deleted_refl.
  - intros [k e] Hin. cbn [fst snd]. rewrite (In_assoc_NoDup k e _ ND Hin). rewrite check_added_refl.
    rewrite (check_changed_refl e _ [] (WE _ _ Hin)). reflexivity.
Qed.

(* ---------- operations ---------- *)
Lemma find_xum_self (um : xum_t) k v : NoDup (map fst um) -> In (k, v) um -> find_xum k um = Some v.
Proof.
  induction um as [|[k' v'] r IH]; intros ND Hin; [contradiction|]. cbn [find_xum].
  inversion ND as [|? ? Hn Hr]; subst. destruct Hin as [E|Hin].
  - inversion E; subst. rewrite !str_eqb_refl. reflexivity.
  - destruct (str_eqb (fst k) (fst k') && str_eqb (snd k) (snd k')) eqn:Eq.
    + apply andb_prop in Eq as [E1 E2]. apply str_eqb_eq in E1. apply str_eqb_eq in E2.
      exfalso. apply Hn. assert (k = k') as -> by (destruct k, k'; cbn in *; congruence).
      apply in_map_iff. exists (k', v). split; [reflexivity | exact Hin].
    + apply IH; assumption.
Qed.

(* the effective parameters at a location: distinct names, and every entry stems from a declaration *)
Lemma add_xparams_spec (location : str) (ps : list (param * exts)) : forall acc (P : param * exts -> Prop),
  NoDup (keys acc) -> (forall k v, In (k, v) acc -> P v) -> (forall pe, In pe ps -> P pe) ->
  let r := fold_left (fun a pe => if str_eqb (p_in (fst pe)) location then set_assoc (p_name (fst pe)) pe a else a) ps acc in
  NoDup (keys r) /\ (forall k v, In (k, v) r -> P v).
Proof.
  induction ps as [|pe rest IH]; intros acc P ND HA HP; cbn [fold_left]; [split; assumption|].
  apply IH.
  - destruct (str_eqb _ _); [apply set_assoc_nodup; exact ND | exact ND].
  - intros k v Hin. destruct (str_eqb _ _); [|apply (HA k v Hin)].
    apply set_assoc_in in Hin as [E|Hin]; [inversion E; subst; apply HP; left; reflexivity | apply (HA k v Hin)].
  - intros pe' H. apply HP. right. exact H.
Qed.

Lemma get_xparams_spec pp op location (P : param * exts -> Prop) :
  (forall pe, In pe pp -> P pe) -> (forall pe, In pe op -> P pe) ->
  NoDup (keys (get_xparams pp op location)) /\ (forall k v, In (k, v) (get_xparams pp op location) -> P v).
Proof.
  intros H1 H2. unfold get_xparams.
  destruct (add_xparams_spec location pp [] P (NoDup_nil _) (fun _ _ F => match F with end) H1) as [ND1 P1].
  exact (add_xparams_spec location op _ P ND1 P1 H2).
Qed.

Ltac stepx H :=
  match type of H with
  | bind ?X _ = _ => let E := fresh "E" in destruct X eqn:E; cbn [bind] in H; try discriminate
  end.

Lemma pdel_loop_refl l ps : NoDup (keys ps) -> forall l1 r, (forall x, In x l1 -> In x ps) -> pdel_loop l ps l1 = Ok r -> r = [].
Proof.
  intros ND. unfold exts in *. induction l1 as [|[n [p1 e1]] rest IH]; intros r Hin Hr; [inversion Hr; reflexivity|].
  cbn [pdel_loop] in Hr. unfold exts in *. stepx Hr. assert (assoc n ps = Some (p1, e1)) as A by (apply In_assoc_NoDup; [exact ND | apply Hin; left; reflexivity]). rewrite A in Hr. stepx Hr. inversion Hr; subst r.
  rewrite check_deleted_refl. cbn [app]. apply (IH a (fun x Hx => Hin x (or_intror Hx)) eq_refl).
Qed.

Lemma padd_loop_refl l ps : NoDup (keys ps) -> (forall n p e, In (n, (p, e)) ps -> NoDup (keys e)) ->
  forall l2 r, (forall x, In x l2 -> In x ps) -> padd_loop l ps l2 = Ok r -> r = [].
Proof.
  intros ND WE. unfold exts in *. induction l2 as [|[n [p2 e2]] rest IH]; intros r Hin Hr; [inversion Hr; reflexivity|].
  cbn [padd_loop] in Hr. unfold exts in *. stepx Hr. assert (assoc n ps = Some (p2, e2)) as A by (apply In_assoc_NoDup; [exact ND | apply Hin; left; reflexivity]). rewrite A in Hr. stepx Hr. inversion Hr; subst r.
  rewrite check_added_refl, (check_changed_refl e2 _ [] (WE _ _ _ (Hin _ (or_introl eq_refl)))). cbn [app].
  apply (IH a (fun x Hx => Hin x (or_intror Hx)) eq_refl).
Qed.

Lemma param_ext_at_refl k location ps ds : NoDup (keys ps) -> (forall n p e, In (n, (p, e)) ps -> NoDup (keys e)) ->
  param_ext_at k location ps ps = Ok ds -> ds = [].
Proof.
  intros ND WE H. unfold param_ext_at in H. stepx H. stepx H. inversion H; subst ds. clear H.
  rewrite (pdel_loop_refl _ ps ND ps a (fun x Hx => Hx) E), (padd_loop_refl _ ps ND WE ps a0 (fun x Hx => Hx) E0). reflexivity.
Qed.

Lemma wf_xparams_all l : wf_xparams l = true -> forall pe, In pe l -> NoDup (keys (snd pe)).
Proof. unfold wf_xparams. intros H pe Hin. rewrite forallb_forall in H. apply wf_exts_NoDup. exact (H pe Hin). Qed.

Lemma param_ext_refl k it op ds : wf_xparams (xi_params it) = true -> wf_xparams (xo_params op) = true ->
  param_ext k it op it op = Ok ds -> ds = [].
Proof.
  intros W1 W2. unfold param_ext. generalize param_locations as ls. intros ls. revert ds.
  induction ls as [|location r IH]; intros ds H; [inversion H; reflexivity|].
  cbn [param_ext_locs] in H. stepx H. stepx H. inversion H; subst ds. clear H.
  destruct (get_xparams_spec (xi_params it) (xo_params op) location (fun pe => NoDup (keys (snd pe)))
              (wf_xparams_all _ W1) (wf_xparams_all _ W2)) as [ND WE].
  rewrite (param_ext_at_refl k location _ a ND (fun n p e Hin => WE n (p, e) Hin) E). cbn [app]. apply (IH a0 eq_refl).
Qed.

Lemma header_ext_refl k op deleted : wf_xop op = true -> header_ext k op op deleted = [].
Proof.
  intros W. unfold wf_xop in W. apply andb_prop in W as [W Wr]. apply andb_prop in W as [_ Wc].
  apply nodupZ_NoDup in Wc. unfold header_ext. apply flat_map_nil. intros [c r1] Hc. cbn [fst snd].
  rewrite (assocZ_self _ c r1 Wc Hc). rewrite forallb_forall in Wr. specialize (Wr (c, r1) Hc). cbn [snd] in Wr.
  unfold wf_xresp in Wr. apply andb_prop in Wr as [Wh _]. destruct (wf_named_parts _ Wh) as [ND WE].
  apply flat_map_nil. intros [h e] Hh. cbn [fst snd]. rewrite (In_assoc_NoDup h e _ ND Hh).
  destruct deleted; [apply check_deleted_refl|]. rewrite check_added_refl, (check_changed_refl e _ h (WE _ _ Hh)). reflexivity.
Qed.

Lemma schema_ext_refl k code : forall c ds, (forall se, In se c -> NoDup (keys (snd se))) -> schema_ext k code c c = Ok ds -> ds = [].
Proof.
  induction c as [|[x e] r IH]; intros ds W H; [inversion H; reflexivity|].
  cbn [schema_ext] in H. stepx H. stepx H. inversion H; subst ds.
  rewrite check_added_refl, check_deleted_refl, (check_changed_refl e _ [] (W (x, e) (or_introl eq_refl))). cbn [app].
  apply (IH a0 (fun se Hs => W se (or_intror Hs)) eq_refl).
Qed.

Lemma body_ext_refl k op ds : wf_xop op = true -> body_ext k op op = Ok ds -> ds = [].
Proof.
  intros W. unfold wf_xop in W. apply andb_prop in W as [W Wr]. apply andb_prop in W as [_ Wc].
  apply nodupZ_NoDup in Wc. rewrite forallb_forall in Wr. unfold body_ext.
  assert (forall rs r, (forall x, In x rs -> In x (xo_resps op)) -> body_loop k (xo_resps op) rs = Ok r -> r = []) as L.
  { induction rs as [|[c r1] rest IH]; intros r Hin Hr; [inversion Hr; reflexivity|].
    cbn [body_loop] in Hr. rewrite (assocZ_self _ c r1 Wc (Hin _ (or_introl eq_refl))) in Hr. stepx Hr. stepx Hr. inversion Hr; subst r.
    pose proof (Wr (c, r1) (Hin _ (or_introl eq_refl))) as Wx. cbn [snd] in Wx. unfold wf_xresp in Wx. apply andb_prop in Wx as [_ Wb].
    rewrite forallb_forall in Wb.
    rewrite (schema_ext_refl k c (xr_body r1) a (fun se Hs => wf_exts_NoDup _ (Wb se Hs)) E). cbn [app].
    apply (IH a0 (fun x Hx => Hin x (or_intror Hx)) eq_refl). }
  intros H. apply (L (xo_resps op) ds (fun x Hx => Hx) H).
Qed.

Definition wf_xum (um : xum_t) : Prop :=
  NoDup (map fst um) /\ forall k it op, In (k, (it, op)) um -> wf_xitem it = true /\ wf_xop op = true.

Lemma ops_added_refl um : wf_xum um -> forall es seen ds, (forall e, In e es -> In e um) -> ops_added um es seen = Ok ds -> ds = [].
Proof.
  intros [ND WU]. induction es as [|[k [it2 op2]] r IH]; intros seen ds Hin H; [inversion H; reflexivity|].
  cbn [ops_added] in H. rewrite (find_xum_self um k (it2, op2) ND (Hin _ (or_introl eq_refl))) in H.
  destruct (WU _ _ _ (Hin _ (or_introl eq_refl))) as [Wi Wo].
  stepx H. stepx H. stepx H. inversion H; subst ds. clear H.
  unfold wf_xitem in Wi. apply andb_prop in Wi as [Wie Wip].
  pose proof Wo as Wo'. unfold wf_xop in Wo'. apply andb_prop in Wo' as [Wo' _]. apply andb_prop in Wo' as [Wo' _].
  apply andb_prop in Wo' as [Wo' Wop]. apply andb_prop in Wo' as [Woe Wore].
  rewrite !check_added_refl.
  rewrite (check_changed_refl _ _ [] (wf_exts_NoDup _ Wie)), (check_changed_refl _ _ (s "Responses") (wf_exts_NoDup _ Wore)),
          (check_changed_refl _ _ [] (wf_exts_NoDup _ Woe)).
  rewrite (param_ext_refl k it2 op2 a Wip Wop E), (header_ext_refl k op2 false Wo), (body_ext_refl k op2 a0 Wo E0).
  rewrite (IH _ a1 (fun e He => Hin e (or_intror He)) E1).
  destruct (mem (fst k) seen); reflexivity.
Qed.

Lemma ops_deleted_refl um : wf_xum um -> forall es seen, (forall e, In e es -> In e um) -> ops_deleted um es seen = [].
Proof.
  intros [ND WU]. induction es as [|[k [it1 op1]] r IH]; intros seen Hin; [reflexivity|].
  cbn [ops_deleted]. rewrite (find_xum_self um k (it1, op1) ND (Hin _ (or_introl eq_refl))).
  destruct (WU _ _ _ (Hin _ (or_introl eq_refl))) as [_ Wo].
  rewrite !check_deleted_refl, (header_ext_refl k op1 true Wo), (IH _ (fun e He => Hin e (or_intror He))).
  destruct (mem (fst k) seen); reflexivity.
Qed.

Lemma wf_xdoc_um x : wf_xdoc x = true -> wf_xum (xurl_methods x).
Proof.
  unfold wf_xdoc. intros H. apply andb_prop in H as [H Hall]. apply andb_prop in H as [_ Hnd]. split.
  - apply nodup_pairs_NoDup. exact Hnd.
  - intros k it op Hin. rewrite forallb_forall in Hall. specialize (Hall _ Hin). cbn [fst snd] in Hall.
    apply andb_prop in Hall. exact Hall.
Qed.

(* the extension pass on a document against itself: whatever it returns, it returns nothing *)
Theorem analyse_ext_refl x ds : wf_xdoc x = true -> analyse_ext x x = Ok ds -> ds = [].
Proof.
  intros W H. pose proof (wf_xdoc_um x W) as WU. unfold analyse_ext in H. stepx H. inversion H; subst ds. clear H.
  unfold wf_xdoc in W. apply andb_prop in W as [W _]. apply andb_prop in W as [W _]. apply andb_prop in W as [W Wsec].
  apply andb_prop in W as [W Wtags]. apply andb_prop in W as [W Wlic]. apply andb_prop in W as [W Wcon]. apply andb_prop in W as [Wroot Winfo].
  rewrite (ext_three_refl _ _ (wf_exts_NoDup _ Wroot)), (ext_info_refl x Winfo Wcon Wlic), (ext_tags_refl x Wtags), (ext_secdefs_refl x Wsec).
  rewrite (ops_added_refl _ WU _ _ a (fun e He => He) E), (ops_deleted_refl _ WU _ [] (fun e He => He)). reflexivity.
Qed.

(* with the rest of the analysis: C12 for the whole command *)
Theorem analyse_all_identity fuel a x ds : wf_swaggerb a = true -> wf_xdoc x = true -> analyse_all fuel a a x x = Ok ds -> ds = [].
Proof.
  intros Wa Wx H. unfold analyse_all in H. stepx H. stepx H. inversion H; subst ds.
  rewrite (analyse_identity fuel a a0 Wa E), (analyse_ext_refl x a1 Wx E0). reflexivity.
Qed.

(* a changed value is reported in both directions, at the same location (tables with distinct keys) *)
Fixpoint dval_eqb_sym (a : dval) : forall b, dval_eqb a b = dval_eqb b a.
Proof.
  destruct a as [|x|z|bo|l]; intros [|y|z'|bo'|l']; try reflexivity; cbn [dval_eqb].
  - apply str_eqb_sym.
  - apply Z.eqb_sym.
  - destruct bo, bo'; reflexivity.
  - revert l'. induction l as [|x r IH]; intros [|y r']; try reflexivity.
    rewrite (dval_eqb_sym x y). f_equal. apply IH.
Qed.

Lemma check_changed_sym e1 e2 l p : NoDup (keys e1) -> NoDup (keys e2) ->
  forall d, In d (check_changed e1 e2 l p) <-> In d (check_changed e2 e1 l p).
Proof.
  assert (forall a b, NoDup (keys a) -> NoDup (keys b) -> forall d, In d (check_changed a b l p) -> In d (check_changed b a l p)) as ONE.
  { intros a b Na Nb d H. unfold check_changed in *. apply in_flat_map in H as [[k v2] [Hin Hd]]. cbn [fst snd] in Hd.
    destruct (assoc k a) as [v1|] eqn:A; [|contradiction]. destruct (dval_eqb v1 v2) eqn:E; [contradiction|].
    destruct Hd as [<-|[]]. apply in_flat_map. exists (k, v1). split; [apply assoc_In; exact A|]. cbn [fst snd].
    rewrite (In_assoc_NoDup k v2 b Nb Hin). rewrite dval_eqb_sym, E. left. reflexivity. }
  intros N1 N2 d. split; apply ONE; assumption.
Qed.

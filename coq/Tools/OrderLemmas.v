(* Tools/OrderLemmas.v — permutation invariance of the loop patterns. *)
From Coq Require Import Permutation Sorted.
From GS Require Import Base.Str Tools.Order Tools.DiffReportLemmas.

(* --- first match: independent of the order when all matching entries agree --- *)
Lemma find_none_perm {A} (f : A -> bool) l l' : Permutation l l' -> find f l = None -> find f l' = None.
Proof.
  intros P H. destruct (find f l') as [y|] eqn:E; [|reflexivity].
  apply find_some in E as [Hy Hf]. apply (Permutation_in _ (Permutation_sym P)) in Hy.
  rewrite (find_none _ _ H y Hy) in Hf. discriminate.
Qed.

Lemma first_match_perm {A} (f : A -> bool) (g : A -> str) l l' :
  Permutation l l' ->
  (forall x y, In x l -> In y l -> f x = true -> f y = true -> g x = g y) ->
  first_match f g l = first_match f g l'.
Proof.
  intros P H. unfold first_match.
  destruct (find f l) as [x|] eqn:E.
  - apply find_some in E as [Hx Hfx].
    destruct (find f l') as [y|] eqn:E'.
    + apply find_some in E' as [Hy Hfy]. apply (Permutation_in _ (Permutation_sym P)) in Hy.
      cbn. f_equal. now apply H.
    + exfalso. apply (find_none_perm f _ _ (Permutation_sym P)) in E'.
      rewrite (find_none _ _ E' x Hx) in Hfx. discriminate.
  - now rewrite (find_none_perm f _ _ P E).
Qed.

(* --- collect then sort: the sorted slice does not depend on the collection order --- *)
Lemma str_ltb_irrefl a : str_ltb a a = false.
Proof. induction a as [|x a IH]; cbn; [reflexivity|]. now rewrite N.ltb_irrefl. Qed.

Lemma str_ltb_cons x a y b :
  str_ltb (x :: a) (y :: b) = true <-> (x < y)%N \/ (x = y /\ str_ltb a b = true).
Proof.
  cbn. destruct (N.ltb_spec x y) as [H|H].
  - split; [intros _; now left | reflexivity].
  - destruct (N.ltb_spec y x) as [H'|H'].
    + split; [discriminate | intros [K|[K _]]; lia].
    + split; [intro E; right; split; [lia | exact E] | intros [K|[_ K]]; [lia | exact K]].
Qed.

Lemma str_ltb_nil_l b : str_ltb [] b = true <-> b <> [].
Proof. destruct b; cbn; split; congruence. Qed.

Lemma str_ltb_nil_r a : str_ltb a [] = false.
Proof. destruct a; reflexivity. Qed.

Lemma str_ltb_trichotomy : forall a b, str_ltb a b = true \/ a = b \/ str_ltb b a = true.
Proof.
  induction a as [|x a IH]; intros [|y b].
  - right. now left.
  - left. reflexivity.
  - right. right. reflexivity.
  - rewrite !str_ltb_cons. destruct (N.lt_trichotomy x y) as [H|[H|H]].
    + left. now left.
    + subst. destruct (IH b) as [K|[K|K]].
      * left. right. now split.
      * subst. right. now left.
      * right. right. right. now split.
    + right. right. now left.
Qed.

Lemma str_ltb_asym : forall a b, str_ltb a b = true -> str_ltb b a = false.
Proof.
  induction a as [|x a IH]; intros [|y b] H; try reflexivity; try (cbn in H; discriminate).
  apply str_ltb_cons in H. destruct (str_ltb (y :: b) (x :: a)) eqn:E; [|reflexivity].
  apply str_ltb_cons in E. destruct H as [H|[-> H]], E as [E|[E1 E2]]; try lia.
  apply IH in H. congruence.
Qed.

Lemma str_ltb_trans : forall a b c, str_ltb a b = true -> str_ltb b c = true -> str_ltb a c = true.
Proof.
  induction a as [|x a IH]; intros [|y b] [|z c] H1 H2; try reflexivity; try (cbn in *; discriminate).
  apply str_ltb_cons in H1, H2. apply str_ltb_cons.
  destruct H1 as [H1|[-> H1]], H2 as [H2|[-> H2]]; try (left; lia).
  right. split; [reflexivity|]. eapply IH; eassumption.
Qed.

Definition str_le (a b : str) : Prop := str_leb a b = true.

Lemma str_leb_total a b : str_leb a b = true \/ str_leb b a = true.
Proof.
  unfold str_leb. destruct (str_ltb_trichotomy a b) as [H|[H|H]].
  - left. now rewrite (str_ltb_asym _ _ H).
  - subst. left. now rewrite str_ltb_irrefl.
  - right. now rewrite (str_ltb_asym _ _ H).
Qed.

Lemma str_leb_antisym a b : str_leb a b = true -> str_leb b a = true -> a = b.
Proof.
  unfold str_leb. intros H1 H2. apply negb_true_iff in H1, H2.
  destruct (str_ltb_trichotomy a b) as [H|[H|H]]; congruence.
Qed.

Lemma str_leb_trans a b c : str_leb a b = true -> str_leb b c = true -> str_leb a c = true.
Proof.
  unfold str_leb. intros H1 H2. apply negb_true_iff in H1, H2. apply negb_true_iff.
  destruct (str_ltb c a) eqn:E; [|reflexivity].
  destruct (str_ltb_trichotomy b a) as [H|[H|H]]; [congruence| |].
  - subst. congruence.
  - assert (str_ltb c b = true) by (eapply str_ltb_trans; eassumption). congruence.
Qed.

Lemma insert_sorted x l : StronglySorted str_le l -> StronglySorted str_le (insert_str x l).
Proof.
  induction 1 as [|y l Hs IH Hall]; cbn; [repeat constructor|].
  destruct (str_leb x y) eqn:E.
  - constructor; [now constructor|]. constructor; [exact E|].
    apply Forall_forall. intros z Hz. unfold str_le. eapply str_leb_trans; [exact E|].
    exact (proj1 (Forall_forall _ _) Hall z Hz).
  - constructor; [exact IH|].
    apply Forall_forall. intros z Hz.
    apply (Permutation_in _ (insert_str_perm x l)) in Hz. destruct Hz as [<-|Hz].
    + destruct (str_leb_total x y) as [H|H]; [congruence | exact H].
    + exact (proj1 (Forall_forall _ _) Hall z Hz).
Qed.

Lemma sort_sorted l : StronglySorted str_le (sort_str l).
Proof. induction l as [|x l IH]; cbn; [constructor | now apply insert_sorted]. Qed.

Lemma sorted_perm_eq : forall l l', StronglySorted str_le l -> StronglySorted str_le l' -> Permutation l l' -> l = l'.
Proof.
  induction l as [|x l IH]; intros l' S S' P.
  - apply Permutation_nil in P. now subst.
  - destruct l' as [|y l']; [apply Permutation_sym, Permutation_nil in P; discriminate|].
    inversion S as [|? ? Sl Hx]; subst. inversion S' as [|? ? Sl' Hy]; subst.
    assert (x = y).
    { assert (Ix : In x (y :: l')) by (eapply Permutation_in; [exact P | now left]).
      assert (Iy : In y (x :: l)) by (eapply Permutation_in; [exact (Permutation_sym P) | now left]).
      destruct Ix as [->|Ix]; [reflexivity|]. destruct Iy as [->|Iy]; [reflexivity|].
      apply str_leb_antisym.
      - exact (proj1 (Forall_forall _ _) Hx y Iy).
      - exact (proj1 (Forall_forall _ _) Hy x Ix). }
    subst. f_equal. apply IH; [assumption | assumption|]. now apply Permutation_cons_inv in P.
Qed.

Lemma sort_perm_invariant l l' : Permutation l l' -> sort_str l = sort_str l'.
Proof.
  intro P. apply sorted_perm_eq; try apply sort_sorted.
  rewrite (sort_str_perm l), (sort_str_perm l'). exact P.
Qed.

(* --- commutative updates: the set of collected keys does not depend on the order --- *)
Lemma mem_perm x l l' : Permutation l l' -> mem x l = mem x l'.
Proof.
  intro P. destruct (mem x l) eqn:E.
  - apply mem_In in E. symmetry. apply mem_In. eapply Permutation_in; eassumption.
  - symmetry. apply mem_false. apply mem_false in E. intro H. apply E. eapply Permutation_in; [apply Permutation_sym|]; eassumption.
Qed.

(* building a map from distinct keys: every lookup is the same whatever the insertion order *)
Lemma assoc_perm {A} (l l' : list (str * A)) k :
  Permutation l l' -> NoDup (keys l) -> assoc k l = assoc k l'.
Proof.
  intros P ND.
  assert (ND' : NoDup (keys l')) by (eapply Permutation_NoDup; [apply Permutation_map; exact P | exact ND]).
  destruct (assoc k l) as [v|] eqn:E.
  - apply assoc_In in E. symmetry. apply In_assoc_NoDup; [exact ND'|]. eapply Permutation_in; eassumption.
  - symmetry. apply assoc_None_keys. apply assoc_None_keys in E. intro H. apply E.
    eapply Permutation_in; [apply Permutation_sym, Permutation_map; exact P | exact H].
Qed.

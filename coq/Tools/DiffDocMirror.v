(* Tools/DiffDocMirror.v — C14 at document level for the parts of the analysis that do not walk schemas: endpoints
   (added / deleted), spec metadata lists (consumes, produces, schemes) and operation tags.  Swapping the two documents
   mirrors the report: same locations, Added <-> Deleted, as multisets (the order of a report is that of its sort). *)
From Coq Require Import Permutation.
From GS Require Import Base.Str Gen.GenDiffTables Tools.DiffTypes Tools.DiffSpec Tools.DiffReport Tools.DiffModel Tools.DiffModelLemmas Tools.DiffIdentity.

Definition lc (d : sdiff) : loc * code := (d_loc d, d_code d).
Definition lc_mirror (d : sdiff) : loc * code := (d_loc d, mirror_code (d_code d)).

(* ---------- endpoints ---------- *)
Definition no_deprecated (um : um_t) : Prop :=
  forall k pit op, In (k, (pit, op)) um -> options_deprecated pit || o_deprecated op = false.

Definition ep_deleted (um1 um2 : um_t) : list sdiff :=
  flat_map (fun e => let '(k, (pit, op)) := e in
                     match find_um k um2 with
                     | Some _ => []
                     | None => [mk_diff (um_loc k) (if options_deprecated pit || o_deprecated op then DeletedDeprecatedEndpoint else DeletedEndpoint) []]
                     end) um1.
Definition ep_added (um1 um2 : um_t) : list sdiff :=
  flat_map (fun e => match find_um (fst e) um1 with Some _ => [] | None => [mk_diff (um_loc (fst e)) AddedEndpoint []] end) um2.

Lemma analyse_endpoints_parts um1 um2 : analyse_endpoints um1 um2 = ep_deleted um1 um2 ++ ep_added um1 um2.
Proof. reflexivity. Qed.

(* what is deleted from um1 to um2 is what is added from um2 to um1 (deprecated or not) *)
Lemma ep_deleted_mirror um1 um2 : map lc_mirror (ep_deleted um1 um2) = map lc (ep_added um2 um1).
Proof.
  unfold ep_deleted, ep_added. induction um1 as [|[k [pit op]] r IH]; [reflexivity|].
  cbn [flat_map fst]. rewrite !map_app, IH. destruct (find_um k um2); [reflexivity|].
  destruct (options_deprecated pit || o_deprecated op); reflexivity.
Qed.

Lemma ep_added_mirror um1 um2 : no_deprecated um2 -> map lc_mirror (ep_added um1 um2) = map lc (ep_deleted um2 um1).
Proof.
  unfold ep_deleted, ep_added, no_deprecated. intros ND. induction um2 as [|[k [pit op]] r IH]; [reflexivity|].
  cbn [flat_map fst]. rewrite !map_app, IH; [|intros k' p' o' H; apply (ND k' p' o'); right; exact H].
  destruct (find_um k um1); [reflexivity|]. rewrite (ND k pit op (or_introl eq_refl)). reflexivity.
Qed.

Theorem endpoints_mirror um1 um2 : no_deprecated um2 ->
  Permutation (map lc_mirror (analyse_endpoints um1 um2)) (map lc (analyse_endpoints um2 um1)).
Proof.
  intros ND. rewrite !analyse_endpoints_parts, !map_app, ep_deleted_mirror, (ep_added_mirror um1 um2 ND). apply Permutation_app_comm.
Qed.

(* ---------- string lists of the spec metadata and of operation tags ---------- *)
Lemma list_pair_mirror (x y : list str) (l : loc) (ca cd : code) :
  mirror_code ca = cd -> mirror_code cd = ca ->
  let ad := diffs_to (Some x) (Some y) in let ad' := diffs_to (Some y) (Some x) in
  Permutation (map lc_mirror (map (fun v => mk_diff l ca v) (fst ad) ++ map (fun v => mk_diff l cd v) (snd ad)))
              (map lc (map (fun v => mk_diff l ca v) (fst ad') ++ map (fun v => mk_diff l cd v) (snd ad'))).
Proof.
  intros M1 M2 ad ad'. subst ad ad'. rewrite (diffs_to_swap x y). cbn [fst snd].
  rewrite !map_app, !map_map. unfold lc_mirror, lc, mk_diff, add_diff. cbn [d_loc d_code].
  rewrite M1, M2. apply Permutation_app_comm.
Qed.

(* tags of an operation present in both documents *)
Theorem tags_mirror (k : str * str) (t1 t2 : list str) :
  let ad := diffs_to (Some t1) (Some t2) in let ad' := diffs_to (Some t2) (Some t1) in
  Permutation
    (map lc_mirror (map (fun t => mk_diff (um_loc k) AddedTag (quote t)) (fst ad) ++ map (fun t => mk_diff (um_loc k) DeletedTag (quote t)) (snd ad)))
    (map lc (map (fun t => mk_diff (um_loc k) AddedTag (quote t)) (fst ad') ++ map (fun t => mk_diff (um_loc k) DeletedTag (quote t)) (snd ad'))).
Proof.
  intros ad ad'. subst ad ad'. rewrite (diffs_to_swap t1 t2). cbn [fst snd].
  rewrite !map_app, !map_map. unfold lc_mirror, lc, mk_diff, add_diff. cbn [d_loc d_code mirror_code]. apply Permutation_app_comm.
Qed.

(* ---------- the whole metadata section of a document ---------- *)
Lemma meta_prop_mirror (x y : str) (c : code) : mirror_code c = c ->
  map lc_mirror (analyse_meta_prop x y c) = map lc (analyse_meta_prop y x c).
Proof.
  intros M. unfold analyse_meta_prop. rewrite (str_eqb_sym y x). destruct (str_eqb x y); [reflexivity|].
  cbn [map]. unfold lc_mirror, lc, mk_diff, add_diff. cbn [d_loc d_code]. rewrite M. reflexivity.
Qed.

Definition lists_present (a : swagger) : Prop :=
  sw_consumes a <> None /\ sw_produces a <> None /\ sw_schemes a <> None.

Definition lst_diffs (child : str) (x y : option (list str)) (ca cd : code) : list sdiff :=
  map (fun v => mk_diff (spec_loc child) ca v) (fst (diffs_to x y)) ++ map (fun v => mk_diff (spec_loc child) cd v) (snd (diffs_to x y)).

Lemma analyse_metadata_parts a b : analyse_metadata a b =
  lst_diffs (s "consumes") (sw_consumes a) (sw_consumes b) AddedConsumesFormat DeletedConsumesFormat ++
  lst_diffs (s "produces") (sw_produces a) (sw_produces b) AddedProducesFormat DeletedProducesFormat ++
  lst_diffs (s "schemes") (sw_schemes a) (sw_schemes b) AddedSchemes DeletedSchemes ++
  analyse_meta_prop (sw_info_desc a) (sw_info_desc b) ChangedDescripton ++
  analyse_meta_prop (sw_host a) (sw_host b) ChangedHostURL ++
  analyse_meta_prop (sw_basepath a) (sw_basepath b) ChangedBasePath.
Proof. reflexivity. Qed.

Lemma lst_diffs_mirror child x y ca cd : mirror_code ca = cd -> mirror_code cd = ca ->
  Permutation (map lc_mirror (lst_diffs child (Some x) (Some y) ca cd)) (map lc (lst_diffs child (Some y) (Some x) ca cd)).
Proof. intros M1 M2. unfold lst_diffs. apply (list_pair_mirror x y (spec_loc child) ca cd M1 M2). Qed.

Theorem metadata_mirror a b : lists_present a -> lists_present b ->
  Permutation (map lc_mirror (analyse_metadata a b)) (map lc (analyse_metadata b a)).
Proof.
  intros [C1 [P1 S1]] [C2 [P2 S2]]. rewrite !analyse_metadata_parts.
  destruct (sw_consumes a) as [ca|]; [|contradiction]. destruct (sw_consumes b) as [cb|]; [|contradiction].
  destruct (sw_produces a) as [pa|]; [|contradiction]. destruct (sw_produces b) as [pb|]; [|contradiction].
  destruct (sw_schemes a) as [sa|]; [|contradiction]. destruct (sw_schemes b) as [sb|]; [|contradiction].
  rewrite !map_app.
  apply Permutation_app; [apply lst_diffs_mirror; reflexivity|].
  apply Permutation_app; [apply lst_diffs_mirror; reflexivity|].
  apply Permutation_app; [apply lst_diffs_mirror; reflexivity|].
  rewrite !(meta_prop_mirror _ _ _ eq_refl). apply Permutation_refl.
Qed.

(* Tools/DiffIdentity.v — C12: the recursive schema walk of the diff model finds nothing when a schema is compared
   with itself (any depth, references, allOf, visited marks), for well-formed documents: property maps with distinct keys. *)
From Coq Require Import Lia.
From GS Require Import Base.Str Gen.GenDiffTables Tools.DiffTypes Tools.DiffSpec Tools.DiffReport Tools.DiffModel Tools.DiffModelLemmas.

(* ---------- well-formed schemas: JSON objects have distinct keys ---------- *)
Fixpoint nodup_keys {A} (l : list (str * A)) : bool :=
  match l with [] => true | (k, _) :: r => negb (has_key k r) && nodup_keys r end.

Fixpoint wfb (x : schema) : bool :=
  let 'Schema _ _ _ _ _ items props _ allof := x in
  nodup_keys props &&
  (match items with Some i => wfb i | None => true end) &&
  (fix go (l : list (str * schema)) : bool := match l with [] => true | (_, p) :: r => wfb p && go r end) props &&
  (fix go (l : list schema) : bool := match l with [] => true | a :: r => wfb a && go r end) allof.

Definition wf_defs (d : defs) : Prop := forall n sc, assoc n d = Some sc -> wfb sc = true.

Lemma has_key_keys {A} k (l : list (str * A)) : has_key k l = true <-> In k (keys l).
Proof.
  unfold has_key. destruct (assoc k l) eqn:E.
  - split; [intros _|reflexivity]. apply assoc_In in E. change k with (fst (k, a)). apply in_map. exact E.
  - split; [discriminate|]. intros H. apply assoc_None_keys in E. contradiction.
Qed.

Lemma nodup_keys_NoDup {A} (l : list (str * A)) : nodup_keys l = true -> NoDup (keys l).
Proof.
  induction l as [|[k v] r IH]; intros H; [constructor|]. cbn in H. apply andb_prop in H as [H1 H2].
  cbn [keys map fst]. constructor; [|apply IH; exact H2]. intros X. apply has_key_keys in X. rewrite X in H1. discriminate.
Qed.

Lemma wfb_parts x : wfb x = true ->
  NoDup (keys (sc_props x)) /\ (forall i, sc_items x = Some i -> wfb i = true) /\
  (forall k p, In (k, p) (sc_props x) -> wfb p = true) /\ (forall a, In a (sc_allof x) -> wfb a = true).
Proof.
  destruct x as [r t f de v items props req allof]. cbn [wfb sc_props sc_items sc_allof]. intros H.
  apply andb_prop in H as [H Ha]. apply andb_prop in H as [H Hp]. apply andb_prop in H as [Hn Hi].
  split; [apply nodup_keys_NoDup; exact Hn|]. split; [|split].
  - intros i E. subst items. exact Hi.
  - clear Hn. induction props as [|[k0 p0] r0 IH]; intros k p Hin; [contradiction|].
    apply andb_prop in Hp as [P1 P2]. destruct Hin as [E|Hin]; [inversion E; subst; exact P1 | apply (IH P2 k p Hin)].
  - induction allof as [|a0 r0 IH]; intros a Hin; [contradiction|].
    apply andb_prop in Ha as [A1 A2]. destruct Hin as [E|Hin]; [subst; exact A1 | apply (IH A2 a Hin)].
Qed.

(* ---------- set_assoc keeps keys distinct ---------- *)
Lemma set_assoc_keys {A} k (v : A) l : forall x, In x (keys (set_assoc k v l)) <-> x = k \/ In x (keys l).
Proof.
  induction l as [|[k' v'] r IH]; intros x; cbn [set_assoc keys map fst].
  - cbn. intuition congruence.
  - destruct (str_eqb k k') eqn:E.
    + apply str_eqb_eq in E. subst k'. cbn. intuition congruence.
    + cbn [keys map fst]. fold (keys (set_assoc k v r)). cbn [In]. rewrite IH. fold (keys r). intuition congruence.
Qed.

Lemma set_assoc_nodup {A} k (v : A) l : NoDup (keys l) -> NoDup (keys (set_assoc k v l)).
Proof.
  induction l as [|[k' v'] r IH]; intros H; cbn [set_assoc].
  - cbn. constructor; [intros []|constructor].
  - inversion H as [|? ? Hn Hr]; subst. destruct (str_eqb k k') eqn:E.
    + apply str_eqb_eq in E. subst k'. cbn. constructor; assumption.
    + cbn [keys map fst]. fold (keys (set_assoc k v r)). constructor; [|apply IH; exact Hr].
      intros X. apply set_assoc_keys in X as [X|X]; [subst k'; rewrite str_eqb_refl in E; discriminate | contradiction].
Qed.

Lemma set_assoc_in {A} k (v : A) l e : In e (set_assoc k v l) -> e = (k, v) \/ In e l.
Proof.
  induction l as [|[k' v'] r IH]; cbn [set_assoc]; intros H.
  - destruct H as [H|[]]. left. symmetry. exact H.
  - destruct (str_eqb k k'); destruct H as [H|H]; auto.
    + right. right. exact H.
    + right. left. exact H.
    + destruct (IH H) as [X|X]; auto. right. right. exact X.
Qed.

Definition good (l : list (str * (schema * bool))) : Prop :=
  NoDup (keys l) /\ forall k sc rq, In (k, (sc, rq)) l -> wfb sc = true.

Lemma good_fold (new acc : list (str * (schema * bool))) :
  good acc -> (forall k sc rq, In (k, (sc, rq)) new -> wfb sc = true) ->
  good (fold_left (fun a kv => set_assoc (fst kv) (snd kv) a) new acc).
Proof.
  revert acc. induction new as [|[k [sc rq]] r IH]; intros acc G Hn; cbn [fold_left]; [exact G|].
  apply IH.
  - destruct G as [G1 G2]. split; [apply set_assoc_nodup; exact G1|].
    intros k' sc' rq' Hin. cbn [fst snd] in Hin. apply set_assoc_in in Hin as [E|Hin].
    + inversion E; subst. apply (Hn k sc rq). left. reflexivity.
    + apply (G2 _ _ _ Hin).
  - intros k' sc' rq' Hin. apply (Hn k' sc' rq'). right. exact Hin.
Qed.

(* ---------- propertiesFor: the property list does not depend on the bookkeeping state ---------- *)
Definition plist := list (str * (schema * bool)).

Fixpoint merge_allof (pf : schema -> st -> res (plist * st)) (l : list schema) (acc : plist) (sta : st) : res (plist * st) :=
  match l with
  | [] => Ok (acc, sta)
  | m :: r =>
      match pf m sta with
      | Ok ps => merge_allof pf r (fold_left (fun a kv => set_assoc (fst kv) (snd kv) a) (fst ps) acc) (snd ps)
      | Panic => Panic
      | Fuel => Fuel
      end
  end.

Definition own_props (x' : schema) : plist := map (fun kv => (fst kv, (snd kv, mem (fst kv) (sc_required x')))) (sc_props x').

Lemma properties_for_unfold f d x sta :
  properties_for (S f) d x sta =
  match (if is_ref x then schema_from_ref d (sc_ref x) sta else Ok (x, sta)) with
  | Ok (x', sta1) => merge_allof (properties_for f d) (sc_allof x') (own_props x') sta1
  | Panic => Panic
  | Fuel => Fuel
  end.
Proof.
  cbn [properties_for]. unfold bind.
  destruct (if is_ref x then schema_from_ref d (sc_ref x) sta else Ok (x, sta)) as [[x' sta1]| |]; try reflexivity.
  fold (own_props x'). generalize (own_props x') as acc. revert sta1. induction (sc_allof x') as [|m r IH]; intros sta1 acc; [reflexivity|].
  cbn [merge_allof]. destruct (properties_for f d m sta1) as [ps| |]; try reflexivity. apply IH.
Qed.

Lemma own_props_good x' : wfb x' = true -> good (own_props x').
Proof.
  intros W. destruct (wfb_parts x' W) as [ND [_ [HP _]]]. unfold own_props. split.
  - unfold keys. rewrite map_map. cbn [fst]. exact ND.
  - intros k sc rq Hin. apply in_map_iff in Hin as [[k0 p0] [E Hin]]. inversion E; subst. apply (HP _ _ Hin).
Qed.

Lemma properties_for_spec d : wf_defs d -> forall f x s l s',
  wfb x = true -> properties_for f d x s = Ok (l, s') ->
  good l /\ forall s2, exists s2', properties_for f d x s2 = Ok (l, s2').
Proof.
  intros WD. induction f as [|f IH]; intros x s l s' Wx H; [discriminate|].
  rewrite properties_for_unfold in H.
  (* the resolved schema is the same whatever the state *)
  assert (exists x', wfb x' = true /\ (forall st0, exists st1, (if is_ref x then schema_from_ref d (sc_ref x) st0 else Ok (x, st0)) = Ok (x', st1))) as [x' [Wx' RES]].
  { destruct (is_ref x).
    - unfold schema_from_ref in *. destruct (assoc (sc_ref x) d) as [y|] eqn:A; [|discriminate].
      exists y. split; [apply (WD _ _ A)|]. intros st0. eexists. reflexivity.
    - exists x. split; [exact Wx|]. intros st0. eexists. reflexivity. }
  destruct (RES s) as [s1 E1]. rewrite E1 in H.
  (* the allOf loop *)
  assert (forall la acc sa l s', (forall a, In a la -> wfb a = true) -> good acc -> merge_allof (properties_for f d) la acc sa = Ok (l, s') ->
            good l /\ forall sb, exists sb', merge_allof (properties_for f d) la acc sb = Ok (l, sb')) as LOOP.
  { induction la as [|m r IHr]; intros acc sa l0 s0 Wl G Hm; cbn [merge_allof] in *.
    - inversion Hm; subst. split; [exact G|]. intros sb. eexists. reflexivity.
    - destruct (properties_for f d m sa) as [[pl ps]| |] eqn:Em; try discriminate.
      destruct (IH m sa pl ps (Wl m (or_introl eq_refl)) Em) as [Gp Ind]. cbn [fst snd] in Hm.
      assert (good (fold_left (fun a kv => set_assoc (fst kv) (snd kv) a) pl acc)) as G2.
      { apply good_fold; [exact G|]. destruct Gp as [_ Gp2]. exact Gp2. }
      destruct (IHr _ _ _ _ (fun a Ha => Wl a (or_intror Ha)) G2 Hm) as [Gl Indr]. split; [exact Gl|].
      intros sb. destruct (Ind sb) as [sb1 Eb]. rewrite Eb. cbn [fst snd]. apply Indr. }
  destruct (wfb_parts x' Wx') as [_ [_ [_ HA]]].
  destruct (LOOP _ _ _ _ _ HA (own_props_good x' Wx') H) as [G Ind]. split; [exact G|].
  intros s2. rewrite properties_for_unfold. destruct (RES s2) as [s21 E2]. rewrite E2. apply Ind.
Qed.

(* ---------- compareSchema on equal arguments ---------- *)
Lemma insert_kv_in {A} (x : str * A) l e : In e (insert_kv x l) -> e = x \/ In e l.
Proof.
  induction l as [|y r IH]; cbn [insert_kv]; intros H.
  - destruct H as [H|[]]. left. symmetry. exact H.
  - destruct (str_leb (fst x) (fst y)).
    + destruct H as [H|H]; [left; symmetry; exact H | right; exact H].
    + destruct H as [H|H]; [right; left; exact H|]. destruct (IH H) as [X|X]; [left; exact X | right; right; exact X].
Qed.
Lemma sort_kv_in {A} (l : list (str * A)) e : In e (sort_kv l) -> In e l.
Proof.
  induction l as [|x r IH]; cbn [sort_kv fold_right]; intros H; [contradiction|].
  apply insert_kv_in in H as [H|H]; [left; symmetry; exact H | right; apply IH; exact H].
Qed.

Ltac step H :=
  match type of H with
  | bind ?X _ = _ => let E := fresh "E" in destruct X eqn:E; cbn [bind] in H; try discriminate
  end.

Theorem compare_schema_refl d : wf_defs d -> forall f l x sta ds sta', wfb x = true ->
  compare_schema f d d l x x sta = Ok (ds, sta') -> ds = [].
Proof.
  intros WD. induction f as [|f IH]; intros l x sta ds sta' Wx H; [discriminate|].
  cbn [compare_schema] in H. rewrite check_ref_change_refl in H. cbn [bind nonempty] in H.
  destruct (is_ref x && mem (schema_location_key l) (visited sta)); [inversion H; reflexivity|].
  (* both sides resolve to the same schema y *)
  assert (exists y, wfb y = true /\ forall st0, exists st1, (if is_ref x then schema_from_ref d (sc_ref x) st0 else Ok (x, st0)) = Ok (y, st1) \/
            (if is_ref x then schema_from_ref d (sc_ref x) st0 else Ok (x, st0)) = Panic) as RES.
  { destruct (is_ref x).
    - unfold schema_from_ref. destruct (assoc (sc_ref x) d) as [y|] eqn:A.
      + exists y. split; [apply (WD _ _ A)|]. intros st0. eexists. left. reflexivity.
      + exists x. split; [exact Wx|]. intros st0. exists st0. right. reflexivity.
    - exists x. split; [exact Wx|]. intros st0. eexists. left. reflexivity. }
  destruct RES as [y [Wy RES]].
  destruct (RES (if is_ref x then mark_visited (schema_location_key l) sta else sta)) as [s1 [E1|E1]].
  2:{ destruct (is_ref x); rewrite E1 in H; discriminate. }
  assert ((if is_ref x then schema_from_ref d (sc_ref x) (mark_visited (schema_location_key l) sta) else Ok (x, sta)) = Ok (y, s1)) as E1'.
  { destruct (is_ref x); exact E1. }
  rewrite E1' in H. cbn [bind] in H.
  destruct (RES s1) as [s2 [E2|E2]]; rewrite E2 in H; [|discriminate]. cbn [bind] in H.
  rewrite compare_props_refl in H. cbn [bind nonempty] in H.
  rewrite compare_description_refl in H.
  (* the items of an array *)
  assert (exists arrd s3, (if is_array_type (sc_typ y) then if is_array_type (sc_typ y) then
             match sc_items y with Some i1 => match sc_items y with Some i2 => compare_schema f d d l i1 i2 s2 | None => Panic end | None => Panic end
             else do ta <- type_of_schema y; do tb <- type_of_schema y; Ok (add_diffs l [td_ft ChangedType (format_type_string ta) (format_type_string tb)], s2)
           else Ok ([], s2)) = Ok (arrd, s3) -> arrd = []) as ARR.
  { exists [], s2. intros _. reflexivity. }
  clear ARR.
  match type of H with bind ?X _ = _ => destruct X as [[arrd s3]| |] eqn:E end; cbn [bind] in H; try discriminate.
  assert (arrd = []) as EA.
  { destruct (is_array_type (sc_typ y)); [|inversion E; reflexivity].
    destruct (sc_items y) as [i|] eqn:EI; [|discriminate].
    destruct (wfb_parts y Wy) as [_ [HI _]]. apply (IH _ _ _ _ _ (HI i EI) E). }
  subst arrd. cbn [app] in H.
  destruct (negb (nonempty (sc_props y)) && negb (nonempty (sc_props y))); [inversion H; reflexivity|].
  match type of H with bind ?X _ = _ => destruct X as [[props1 s4]| |] eqn:E0 end; cbn [bind] in H; try discriminate. cbn [fst snd] in H.
  destruct (properties_for_spec d WD f y s3 props1 s4 Wy E0) as [[ND GW] IND].
  destruct (IND s4) as [s5 E5]. rewrite E5 in H. cbn [bind fst snd] in H.
  match type of H with bind (?F (sort_kv props1) s5) _ = _ =>
    assert (forall ps sa r, (forall e, In e ps -> In e props1) -> F ps sa = Ok r -> fst r = []) as LOOP end.
  { induction ps as [|[name [sc1 req1]] rest IHp]; intros sa r Hin Hr.
    - inversion Hr. reflexivity.
    - match type of Hr with bind ?X _ = _ => destruct X as [cl| |] eqn:Ecl end; cbn [bind] in Hr; try discriminate.
      rewrite (In_assoc_NoDup name (sc1, req1) props1 ND (Hin _ (or_introl eq_refl))) in Hr.
      match type of Hr with bind (bind ?X _) _ = _ => destruct X as [[sd ss]| |] eqn:Esub end; cbn [bind] in Hr; try discriminate.
      rewrite check_required_refl in Hr. cbn [map app fst snd] in Hr.
      assert (sd = []) as Esd by (apply (IH _ _ _ _ _ (GW _ _ _ (Hin _ (or_introl eq_refl))) Esub)). subst sd.
      match type of Hr with bind ?X _ = _ => destruct X as [[rd rs]| |] eqn:Erest end; cbn [bind] in Hr; try discriminate.
      inversion Hr; subst. cbn [fst app]. apply (IHp _ _ (fun e He => Hin e (or_intror He)) Erest). }
  match type of H with bind ?X _ = _ => destruct X as [[cd cs]| |] eqn:Ec end; cbn [bind] in H; try discriminate.
  pose proof (LOOP _ _ _ (fun e He => sort_kv_in _ e He) Ec) as Ecd. cbn [fst] in Ecd. subst cd. clear LOOP.
  match type of H with bind (?F (sc_props y)) _ = _ =>
    assert (forall ps r, (forall e, In e ps -> In e (sc_props y)) -> F ps = Ok r -> r = []) as ADD end.
  { induction ps as [|[name sc2] rest IHp]; intros r Hin Hr.
    - inversion Hr. reflexivity.
    - match type of Hr with bind ?X _ = _ => destruct X as [rd| |] eqn:Erest end; cbn [bind] in Hr; try discriminate.
      assert (has_key name (sc_props y) = true) as HK.
      { apply has_key_keys. unfold keys. apply in_map_iff. exists (name, sc2). split; [reflexivity | apply Hin; left; reflexivity]. }
      rewrite HK in Hr. assert (rd = r) as Er by congruence. rewrite <- Er.
      exact (IHp rd (fun e He => Hin e (or_intror He)) eq_refl). }
  match type of H with bind ?X _ = _ => destruct X as [ad| |] eqn:Ea end; cbn [bind] in H; try discriminate.
  pose proof (ADD _ _ (fun e He => He) Ea) as Ead. subst ad.
  inversion H. reflexivity.
Qed.

(* ---------- parameters, responses, definitions, the whole document ---------- *)
Ltac tail_in Hin := let e := fresh in let He := fresh in intros e He; apply Hin; right; exact He.
Ltac use_ih IH Hin := eapply IH; [tail_in Hin | first [eassumption | reflexivity]].
Ltac use_ih_fst IH Hin a b := change a with (fst (a, b)); eapply IH; [tail_in Hin | first [eassumption | reflexivity]].

Definition wf_param (p : param) : Prop :=
  (forall x, p_schema p = Some x -> wfb x = true) /\ wf_simple (p_simple p) = true.

Lemma compare_params_refl d : wf_defs d -> forall f k location n p sta ds sta',
  wf_param p -> compare_params f d d k location n p p sta = Ok (ds, sta') -> ds = [].
Proof.
  intros WD f k location n p sta ds sta' [Ws Wp] H. unfold compare_params in H.
  rewrite compare_description_refl, compare_props_refl in H. cbn [bind] in H.
  rewrite check_required_refl in H.
  destruct (p_schema p) as [x|] eqn:Ex.
  - match type of H with bind (bind ?X _) _ = _ => destruct X as [cl| |] eqn:Ecl end; cbn [bind] in H; try discriminate.
    match type of H with bind (bind ?X _) _ = _ => destruct X as [[cd cs]| |] eqn:Ec end; cbn [bind fst snd] in H; try discriminate.
    pose proof (compare_schema_refl d WD _ _ _ _ _ _ (Ws x eq_refl) Ec) as E. subst cd.
    match type of H with bind ?X _ = _ => destruct X as [r2| |] eqn:Er end; cbn [bind] in H; try discriminate.
    rewrite (compare_simple_refl _ _ Wp) in H. cbn [bind] in H. inversion H. reflexivity.
  - cbn [bind] in H.
    match type of H with bind ?X _ = _ => destruct X as [r2| |] eqn:Er end; cbn [bind] in H; try discriminate.
    rewrite (compare_simple_refl _ _ Wp) in H. cbn [bind] in H. inversion H. reflexivity.
Qed.

Lemma add_params_spec (location : str) (ps : list param) : forall acc (P : param -> Prop),
  NoDup (keys acc) -> (forall n p, In (n, p) acc -> P p) -> (forall p, In p ps -> P p) ->
  let r := fold_left (fun a p => if str_eqb (p_in p) location then set_assoc (p_name p) p a else a) ps acc in
  NoDup (keys r) /\ (forall n p, In (n, p) r -> P p).
Proof.
  induction ps as [|q r IH]; intros acc P ND HA HP; cbn [fold_left]; [split; assumption|].
  apply IH.
  - destruct (str_eqb (p_in q) location); [apply set_assoc_nodup; exact ND | exact ND].
  - intros n p Hin. destruct (str_eqb (p_in q) location); [|apply (HA _ _ Hin)].
    apply set_assoc_in in Hin as [E|Hin]; [inversion E; subst; apply HP; left; reflexivity | apply (HA _ _ Hin)].
  - intros p Hp. apply HP. right. exact Hp.
Qed.

Lemma get_params_spec pp op location (P : param -> Prop) :
  (forall p, In p pp -> P p) -> (forall p, In p op -> P p) ->
  NoDup (keys (get_params pp op location)) /\ (forall n p, In (n, p) (get_params pp op location) -> P p).
Proof.
  intros H1 H2. unfold get_params.
  destruct (add_params_spec location pp [] P (NoDup_nil _) (fun n p (H : In (n, p) []) => match H with end) H1) as [N1 A1].
  apply (add_params_spec location op _ P N1 A1 H2).
Qed.

(* (url, method) keys *)
Definition um_t := list ((str * str) * (pathitem * operation)).
Lemma find_um_self (um : um_t) k v : NoDup (map fst um) -> In (k, v) um -> find_um k um = Some v.
Proof.
  induction um as [|[k' v'] r IH]; intros ND Hin; [contradiction|]. cbn [find_um].
  inversion ND as [|? ? Hn Hr]; subst. destruct Hin as [E|Hin].
  - inversion E; subst. rewrite !str_eqb_refl. reflexivity.
  - destruct (str_eqb (fst k) (fst k') && str_eqb (snd k) (snd k')) eqn:Eq.
    + apply andb_prop in Eq as [E1 E2]. apply str_eqb_eq in E1. apply str_eqb_eq in E2.
      exfalso. apply Hn. assert (k = k') as -> by (destruct k, k'; cbn in *; congruence).
      apply in_map_iff. exists (k', v). split; [reflexivity | exact Hin].
    + apply IH; assumption.
Qed.

Definition wf_response (r : response) : Prop :=
  (forall x, r_schema r = Some x -> wfb x = true) /\ NoDup (keys (r_headers r)).
Definition wf_operation (o : operation) : Prop :=
  (forall p, In p (o_params o) -> wf_param p) /\ NoDup (map fst (o_responses o)) /\ (forall c r, In (c, r) (o_responses o) -> wf_response r).
Definition wf_um (um : um_t) : Prop :=
  NoDup (map fst um) /\ forall k pit op, In (k, (pit, op)) um -> (forall p, In p (pi_params pit) -> wf_param p) /\ wf_operation op.

Lemma analyse_request_params_refl d : wf_defs d -> forall f (um : um_t) sta ds sta', wf_um um ->
  analyse_request_params f d d um um sta = Ok (ds, sta') -> ds = [].
Proof.
  intros WD f um sta ds sta' [ND WU]. unfold analyse_request_params.
  generalize param_locations as ls. intros ls. revert sta ds sta'.
  induction ls as [|location lr IHl]; intros sta ds sta' H; [inversion H; reflexivity|].
  match type of H with bind ?X _ = _ => destruct X as [[hd hs]| |] eqn:Eh end; cbn [bind fst snd] in H; try discriminate.
  match type of H with bind ?X _ = _ => destruct X as [[rd rs]| |] eqn:Er end; cbn [bind fst snd] in H; try discriminate.
  inversion H; subst. rewrite (IHl _ _ _ Er), app_nil_r. clear H Er IHl.
  (* the loop over the (url, method) pairs of the second document *)
  match type of Eh with ?F um sta = _ =>
    assert (forall es sa r, (forall e, In e es -> In e um) -> F es sa = Ok r -> fst r = []) as LOOP end.
  { induction es as [|[k [pit2 op2]] er IHe]; intros sa r Hin Hr; [inversion Hr; reflexivity|].
    rewrite (find_um_self um k (pit2, op2) ND (Hin _ (or_introl eq_refl))) in Hr.
    destruct (WU _ _ _ (Hin _ (or_introl eq_refl))) as [Wpi [Wop _]].
    destruct (get_params_spec (pi_params pit2) (o_params op2) location wf_param Wpi Wop) as [NDp WPp].
    set (params := get_params (pi_params pit2) (o_params op2) location) in *.
    match type of Hr with bind (bind ?X _) _ = _ => destruct X as [del| |] eqn:Ed end; cbn [bind] in Hr; try discriminate.
    match type of Hr with bind (bind ?X _) _ = _ => destruct X as [[chd chs]| |] eqn:Ec end; cbn [bind fst snd] in Hr; try discriminate.
    match type of Hr with bind ?X _ = _ => destruct X as [[rd1 rs1]| |] eqn:Er1 end; cbn [bind fst snd] in Hr; try discriminate.
    inversion Hr; subst. cbn [fst].
    assert (rd1 = []) as ->.
    { first [ apply (IHe _ _ (fun e He => Hin e (or_intror He)) Er1) | apply (IHe sa (rd1, rs1) (fun e He => Hin e (or_intror He)) eq_refl) | apply (IHe _ (rd1, rs1) (fun e He => Hin e (or_intror He)) eq_refl) ]. }
    rewrite app_nil_r.
    (* deleted: every parameter is still there *)
    assert (del = []) as ->.
    { clear - Ed. match type of Ed with ?G params = _ =>
        assert (forall ps r, (forall e, In e ps -> In e params) -> G ps = Ok r -> r = []) as DL end.
      { induction ps as [|[n p] rest IHp]; intros r Hin Hr; [inversion Hr; reflexivity|].
        match type of Hr with bind ?X _ = _ => destruct X as [rd3| |] eqn:Erest end; cbn [bind] in Hr; try discriminate.
        assert (has_key n params = true) as HK.
        { apply has_key_keys. unfold keys. apply in_map_iff. exists (n, p). split; [reflexivity | apply Hin; left; reflexivity]. }
        rewrite HK in Hr. assert (rd3 = r) as Ex by congruence. rewrite <- Ex.
        exact (IHp rd3 (fun e He => Hin e (or_intror He)) eq_refl). }
      apply (DL _ _ (fun e He => He) Ed). }
    (* changed: every parameter against itself *)
    assert (chd = []) as ->; [|reflexivity].
    { match type of Ec with ?G params sa = _ =>
        assert (forall ps sb r, (forall e, In e ps -> In e params) -> G ps sb = Ok r -> fst r = []) as CH end.
      { induction ps as [|[n p2] rest IHp]; intros sb r Hin2 Hr2; [inversion Hr2; reflexivity|].
        rewrite (In_assoc_NoDup n p2 params NDp (Hin2 _ (or_introl eq_refl))) in Hr2.
        match type of Hr2 with bind ?X _ = _ => destruct X as [[hd2 hs2]| |] eqn:Eh2 end; cbn [bind fst snd] in Hr2; try discriminate.
        pose proof (compare_params_refl d WD _ _ _ _ _ _ _ _ (WPp _ _ (Hin2 _ (or_introl eq_refl))) Eh2) as X. subst hd2.
        match type of Hr2 with bind ?X _ = _ => destruct X as [[rd2 rs2]| |] eqn:Er2 end; cbn [bind fst snd] in Hr2; try discriminate.
        inversion Hr2; subst. cbn [fst app].
        use_ih_fst IHp Hin2 rd2 rs2. }
      apply (CH _ _ _ (fun e He => He) Ec). } }
  apply (LOOP _ _ _ (fun e He => He) Eh).
Qed.

Lemma analyse_response_refl d : wf_defs d -> forall f k code r sta ds sta', wf_response r ->
  analyse_response f d d k code r r sta = Ok (ds, sta') -> ds = [].
Proof.
  intros WD f k code r sta ds sta' [Ws NDh] H. unfold analyse_response in H.
  match type of H with bind ?X _ = _ => destruct X as [h2| |] eqn:E2 end; cbn [bind] in H; try discriminate.
  match type of H with bind ?X _ = _ => destruct X as [h1| |] eqn:E1 end; cbn [bind] in H; try discriminate.
  match type of H with bind ?X _ = _ => destruct X as [nd| |] eqn:En end; cbn [bind] in H; try discriminate.
  rewrite compare_description_refl in H.
  assert (h2 = []) as ->.
  { match type of E2 with ?G (r_headers r) = _ =>
      assert (forall hs res, (forall e, In e hs -> In e (r_headers r)) -> G hs = Ok res -> res = []) as L end.
    { induction hs as [|[n h] rest IHh]; intros res Hin Hr; [inversion Hr; reflexivity|].
      match type of Hr with bind ?X _ = _ => destruct X as [rd| |] eqn:Erest end; cbn [bind] in Hr; try discriminate.
      rewrite (In_assoc_NoDup n h (r_headers r) NDh (Hin _ (or_introl eq_refl))), compare_props_refl in Hr. cbn [bind] in Hr.
      inversion Hr; subst. cbn [add_diffs filter map app].
      use_ih IHh Hin. }
    apply (L _ _ (fun e He => He) E2). }
  assert (h1 = []) as ->.
  { match type of E1 with ?G (r_headers r) = _ =>
      assert (forall hs res, (forall e, In e hs -> In e (r_headers r)) -> G hs = Ok res -> res = []) as L end.
    { induction hs as [|[n h] rest IHh]; intros res Hin Hr; [inversion Hr; reflexivity|].
      match type of Hr with bind ?X _ = _ => destruct X as [rd| |] eqn:Erest end; cbn [bind] in Hr; try discriminate.
      assert (has_key n (r_headers r) = true) as HK.
      { apply has_key_keys. unfold keys. apply in_map_iff. exists (n, h). split; [reflexivity | apply Hin; left; reflexivity]. }
      rewrite HK in Hr. assert (rd = res) as Ex by congruence. rewrite <- Ex.
      use_ih IHh Hin. }
    apply (L _ _ (fun e He => He) E1). }
  cbn [app] in H.
  destruct (r_schema r) as [x|] eqn:Ex.
  - match type of H with bind (bind ?X _) _ = _ => destruct X as [n| |] eqn:Eb end; cbn [bind] in H; try discriminate.
    match type of H with bind ?X _ = _ => destruct X as [[bd bs]| |] eqn:Ec end; cbn [bind fst snd] in H; try discriminate.
    pose proof (compare_schema_refl d WD _ _ _ _ _ _ (Ws x eq_refl) Ec) as E. subst bd. inversion H. reflexivity.
  - cbn [bind fst snd] in H. inversion H. reflexivity.
Qed.

Lemma assocZ_self {A} (l : list (Z * A)) c v : NoDup (map fst l) -> In (c, v) l -> assocZ c l = Some v.
Proof.
  induction l as [|[c' v'] r IH]; intros ND Hin; [contradiction|]. cbn [assocZ]. inversion ND as [|? ? Hn Hr]; subst.
  destruct Hin as [E|Hin].
  - inversion E; subst. rewrite Z.eqb_refl. reflexivity.
  - destruct (Z.eqb_spec c c') as [->|Ne]; [|apply IH; assumption].
    exfalso. apply Hn. apply in_map_iff. exists (c', v). split; [reflexivity | exact Hin].
Qed.
Lemma insert_zkv_in {A} (x : Z * A) l e : In e (insert_zkv x l) -> e = x \/ In e l.
Proof.
  induction l as [|y r IH]; cbn [insert_zkv]; intros H.
  - destruct H as [H|[]]. left. symmetry. exact H.
  - destruct (Z.leb (fst x) (fst y)).
    + destruct H as [H|H]; [left; symmetry; exact H | right; exact H].
    + destruct H as [H|H]; [right; left; exact H|]. destruct (IH H) as [X|X]; [left; exact X | right; right; exact X].
Qed.
Lemma sort_zkv_in {A} (l : list (Z * A)) e : In e (sort_zkv l) -> In e l.
Proof.
  induction l as [|x r IH]; cbn [sort_zkv fold_right]; intros H; [contradiction|].
  apply insert_zkv_in in H as [H|H]; [left; symmetry; exact H | right; apply IH; exact H].
Qed.

Lemma analyse_response_params_refl d : wf_defs d -> forall f (um : um_t) sta ds sta', wf_um um ->
  analyse_response_params f d d um um sta = Ok (ds, sta') -> ds = [].
Proof.
  intros WD f um sta ds sta' [ND WU] H. unfold analyse_response_params in H.
  match type of H with ?F um sta = _ =>
    assert (forall es sa r, (forall e, In e es -> In e um) -> F es sa = Ok r -> fst r = []) as LOOP end.
  { induction es as [|[k [pit2 op2]] er IHe]; intros sa r Hin Hr; [inversion Hr; reflexivity|].
    rewrite (find_um_self um k (pit2, op2) ND (Hin _ (or_introl eq_refl))) in Hr.
    destruct (WU _ _ _ (Hin _ (or_introl eq_refl))) as [_ [_ [NDr Wr]]].
    match type of Hr with bind (bind ?X _) _ = _ => destruct X as [del| |] eqn:Ed end; cbn [bind] in Hr; try discriminate.
    match type of Hr with bind (bind ?X _) _ = _ => destruct X as [[chd chs]| |] eqn:Ec end; cbn [bind fst snd] in Hr; try discriminate.
    match type of Hr with bind ?X _ = _ => destruct X as [[rd1 rs1]| |] eqn:Er1 end; cbn [bind fst snd] in Hr; try discriminate.
    inversion Hr; subst. cbn [fst].
    assert (rd1 = []) as ->.
    { first [ apply (IHe _ _ (fun e He => Hin e (or_intror He)) Er1) | apply (IHe _ (rd1, rs1) (fun e He => Hin e (or_intror He)) eq_refl) ]. }
    rewrite app_nil_r.
    assert (del = []) as ->.
    { match type of Ed with ?G (o_responses op2) = _ =>
        assert (forall rs res, (forall e, In e rs -> In e (o_responses op2)) -> G rs = Ok res -> res = []) as DL end.
      { induction rs as [|[c r1] rest IHp]; intros res Hin2 Hr2; [inversion Hr2; reflexivity|].
        match type of Hr2 with bind ?X _ = _ => destruct X as [rd3| |] eqn:Erest end; cbn [bind] in Hr2; try discriminate.
        rewrite (assocZ_self _ c r1 NDr (Hin2 _ (or_introl eq_refl))) in Hr2.
        assert (rd3 = res) as Ex by congruence. rewrite <- Ex.
        use_ih IHp Hin2. }
      apply (DL _ _ (fun e He => He) Ed). }
    assert (chd = []) as ->; [|reflexivity].
    { match type of Ec with ?G (sort_zkv (o_responses op2)) sa = _ =>
        assert (forall rs sb res, (forall e, In e rs -> In e (o_responses op2)) -> G rs sb = Ok res -> fst res = []) as CH end.
      { induction rs as [|[c r2] rest IHp]; intros sb res Hin2 Hr2; [inversion Hr2; reflexivity|].
        rewrite (assocZ_self _ c r2 NDr (Hin2 _ (or_introl eq_refl))) in Hr2.
        match type of Hr2 with bind ?X _ = _ => destruct X as [[hd2 hs2]| |] eqn:Eh2 end; cbn [bind fst snd] in Hr2; try discriminate.
        pose proof (analyse_response_refl d WD _ _ _ _ _ _ _ (Wr _ _ (Hin2 _ (or_introl eq_refl))) Eh2) as X. subst hd2.
        match type of Hr2 with bind ?X _ = _ => destruct X as [[rd2 rs2]| |] eqn:Er2 end; cbn [bind fst snd] in Hr2; try discriminate.
        inversion Hr2; subst. cbn [fst app].
        use_ih_fst IHp Hin2 rd2 rs2. }
      apply (CH _ _ _ (fun e He => sort_zkv_in _ e He) Ec). } }
  apply (LOOP _ _ _ (fun e He => He) H).
Qed.

Lemma analyse_definitions_refl d : wf_defs d -> NoDup (keys d) -> forall f sta ds sta',
  analyse_definitions f d d sta = Ok (ds, sta') -> ds = [].
Proof.
  intros WD ND f sta ds sta' H. unfold analyse_definitions in H.
  match type of H with bind ?X _ = _ => destruct X as [[cd cs]| |] eqn:Ec end; cbn [bind fst snd] in H; try discriminate.
  assert (cd = []) as ->.
  { match type of Ec with ?G (sort_kv d) sta = _ =>
      assert (forall l sb res, (forall e, In e l -> In e d) -> G l sb = Ok res -> fst res = []) as L end.
    { induction l as [|[n x1] rest IHl]; intros sb res Hin Hr; [inversion Hr; reflexivity|].
      match type of Hr with bind ?X _ = _ => destruct X as [[hd hs]| |] eqn:Eh end; cbn [bind fst snd] in Hr; try discriminate.
      assert (hd = []) as ->.
      { destruct (mem n (referenced sta)); [inversion Eh; reflexivity|].
        rewrite (In_assoc_NoDup n x1 d ND (Hin _ (or_introl eq_refl))) in Eh.
        apply (compare_schema_refl d WD _ _ _ _ _ _ (WD n x1 (In_assoc_NoDup n x1 d ND (Hin _ (or_introl eq_refl)))) Eh). }
      match type of Hr with bind ?X _ = _ => destruct X as [[rd2 rs2]| |] eqn:Er2 end; cbn [bind fst snd] in Hr; try discriminate.
      inversion Hr; subst. cbn [fst app]. use_ih_fst IHl Hin rd2 rs2. }
    apply (L _ _ _ (fun e He => sort_kv_in _ e He) Ec). }
  cbn [app] in H.
  assert (flat_map (fun kv : str * schema => if has_key (fst kv) d then [] else add_diffs (defs_loc (fst kv)) [td AddedDefinition []]) d = []) as E.
  { apply flat_map_nil. intros [n x] Hin. cbn [fst].
    assert (has_key n d = true) as HK by (apply has_key_keys; unfold keys; apply in_map_iff; exists (n, x); auto).
    rewrite HK. reflexivity. }
  rewrite E in H. inversion H. reflexivity.
Qed.

Lemma analyse_endpoint_data_refl (um : um_t) : NoDup (map fst um) -> analyse_endpoint_data um um = [].
Proof.
  intros ND. unfold analyse_endpoint_data. apply flat_map_nil. intros [k [pit op]] Hin.
  rewrite (find_um_self um k (pit, op) ND Hin). rewrite diffs_to_refl, compare_description_refl. reflexivity.
Qed.

(* a well-formed document: distinct (path, method) pairs, parameter schemas and header maps well-formed,
   distinct response codes, distinct definition names, every schema with distinct property names *)
Definition wf_swagger (a : swagger) : Prop :=
  wf_um (url_methods a) /\ NoDup (keys (sw_defs a)) /\ wf_defs (sw_defs a).

Theorem analyse_refl f a ds : wf_swagger a -> analyse f a a = Ok ds -> ds = [].
Proof.
  intros [WU [ND WD]] H. unfold analyse in H.
  match type of H with bind ?X _ = _ => destruct X as [[rq s1]| |] eqn:E1 end; cbn [bind fst snd] in H; try discriminate.
  match type of H with bind ?X _ = _ => destruct X as [[rs s2]| |] eqn:E2 end; cbn [bind fst snd] in H; try discriminate.
  match type of H with bind ?X _ = _ => destruct X as [[df s3]| |] eqn:E3 end; cbn [bind fst snd] in H; try discriminate.
  rewrite (analyse_request_params_refl _ WD _ _ _ _ _ WU E1) in H.
  rewrite (analyse_response_params_refl _ WD _ _ _ _ _ WU E2) in H.
  rewrite (analyse_definitions_refl _ WD ND _ _ _ _ E3) in H.
  rewrite analyse_metadata_refl, analyse_endpoints_refl in H.
  destruct WU as [NDu _]. rewrite (analyse_endpoint_data_refl _ NDu) in H. inversion H. reflexivity.
Qed.

(* ---------- the same conditions as a boolean test (so that they can be evaluated on concrete documents) ---------- *)
Definition wf_paramb (p : param) : bool := (match p_schema p with Some x => wfb x | None => true end) && wf_simple (p_simple p).
Definition wf_responseb (r : response) : bool := (match r_schema r with Some x => wfb x | None => true end) && nodup_keys (r_headers r).
Fixpoint nodupZ (l : list Z) : bool := match l with [] => true | x :: r => negb (existsb (Z.eqb x) r) && nodupZ r end.
Definition wf_operationb (o : operation) : bool :=
  forallb wf_paramb (o_params o) && nodupZ (map fst (o_responses o)) && forallb (fun cr => wf_responseb (snd cr)) (o_responses o).
Definition pair_eqb (a b : str * str) : bool := str_eqb (fst a) (fst b) && str_eqb (snd a) (snd b).
Fixpoint nodup_pairs (l : list (str * str)) : bool := match l with [] => true | x :: r => negb (existsb (pair_eqb x) r) && nodup_pairs r end.
Definition wf_umb (um : um_t) : bool :=
  nodup_pairs (map fst um) && forallb (fun e => forallb wf_paramb (pi_params (fst (snd e))) && wf_operationb (snd (snd e))) um.
Definition wf_swaggerb (a : swagger) : bool :=
  wf_umb (url_methods a) && nodup_keys (sw_defs a) && forallb (fun kv => wfb (snd kv)) (sw_defs a).

Lemma nodupZ_NoDup l : nodupZ l = true -> NoDup l.
Proof.
  induction l as [|x r IH]; intros H; [constructor|]. cbn in H. apply andb_prop in H as [H1 H2].
  constructor; [|apply IH; exact H2]. intros X. apply Bool.negb_true_iff in H1.
  assert (existsb (Z.eqb x) r = true) as Y by (apply existsb_exists; exists x; split; [exact X | apply Z.eqb_refl]). congruence.
Qed.
Lemma nodup_pairs_NoDup l : nodup_pairs l = true -> NoDup l.
Proof.
  induction l as [|x r IH]; intros H; [constructor|]. cbn in H. apply andb_prop in H as [H1 H2].
  constructor; [|apply IH; exact H2]. intros X. apply Bool.negb_true_iff in H1.
  assert (existsb (pair_eqb x) r = true) as Y.
  { apply existsb_exists. exists x. split; [exact X|]. unfold pair_eqb. rewrite !str_eqb_refl. reflexivity. }
  congruence.
Qed.

Lemma wf_paramb_sound p : wf_paramb p = true -> wf_param p.
Proof.
  unfold wf_paramb, wf_param. intros H. apply andb_prop in H as [H1 H2]. split; [|exact H2].
  intros x E. rewrite E in H1. exact H1.
Qed.
Lemma wf_responseb_sound r : wf_responseb r = true -> wf_response r.
Proof.
  unfold wf_responseb, wf_response. intros H. apply andb_prop in H as [H1 H2]. split; [|apply nodup_keys_NoDup; exact H2].
  intros x E. rewrite E in H1. exact H1.
Qed.
Lemma wf_operationb_sound o : wf_operationb o = true -> wf_operation o.
Proof.
  unfold wf_operationb, wf_operation. intros H. apply andb_prop in H as [H H3]. apply andb_prop in H as [H1 H2].
  rewrite forallb_forall in H1, H3. split; [|split].
  - intros p Hp. apply wf_paramb_sound, H1, Hp.
  - apply nodupZ_NoDup. exact H2.
  - intros c r Hin. apply wf_responseb_sound. apply (H3 (c, r) Hin).
Qed.
Lemma wf_umb_sound um : wf_umb um = true -> wf_um um.
Proof.
  unfold wf_umb, wf_um. intros H. apply andb_prop in H as [H1 H2]. split; [apply nodup_pairs_NoDup; exact H1|].
  intros k pit op Hin. rewrite forallb_forall in H2. specialize (H2 _ Hin). cbn [fst snd] in H2. apply andb_prop in H2 as [A B].
  split; [|apply wf_operationb_sound; exact B]. intros p Hp. rewrite forallb_forall in A. apply wf_paramb_sound, A, Hp.
Qed.
Lemma wf_swaggerb_sound a : wf_swaggerb a = true -> wf_swagger a.
Proof.
  unfold wf_swaggerb, wf_swagger. intros H. apply andb_prop in H as [H H3]. apply andb_prop in H as [H1 H2].
  split; [apply wf_umb_sound; exact H1|]. split; [apply nodup_keys_NoDup; exact H2|].
  intros n sc E. rewrite forallb_forall in H3. apply (H3 (n, sc)). apply assoc_In. exact E.
Qed.

Theorem analyse_identity f a ds : wf_swaggerb a = true -> analyse f a a = Ok ds -> ds = [].
Proof. intros W. apply analyse_refl. apply wf_swaggerb_sound. exact W. Qed.

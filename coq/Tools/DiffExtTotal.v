(* Tools/DiffExtTotal.v — C12 "never crashes" for the vendor-extension pass: on closed documents (array parameters
   and array schemas carry items, references name definitions) the pass never takes a Panic branch, and neither does
   the whole analysis with it. *)
From GS Require Import Base.Str Gen.GenDiffTables Tools.DiffTypes Tools.DiffSpec Tools.DiffModel Tools.DiffModelLemmas Tools.DiffIdentity
  Tools.DiffTotal Tools.DiffExt Tools.DiffExtLemmas.

Definition closed_xparams (l : list (param * exts)) : bool := forallb (fun pe => wf_simple (p_simple (fst pe))) l.
Definition closed_xresp (d : defs) (r : xresp) : bool := forallb (fun se => closedb d (fst se)) (xr_body r).
Definition closed_xop (d : defs) (o : xop) : bool := closed_xparams (xo_params o) && forallb (fun cr => closed_xresp d (snd cr)) (xo_resps o).
Definition closed_xitem (i : xitem) : bool := closed_xparams (xi_params i).
Definition closed_xdoc (d : defs) (x : xdoc) : bool :=
  forallb (fun e => closed_xitem (fst (snd e)) && closed_xop d (snd (snd e))) (xurl_methods x).

Lemma get_xparams_closed pp op location : closed_xparams pp = true -> closed_xparams op = true ->
  forall k v, In (k, v) (get_xparams pp op location) -> wf_simple (p_simple (fst v)) = true.
Proof.
  intros H1 H2. unfold closed_xparams in *. rewrite forallb_forall in H1, H2.
  destruct (get_xparams_spec pp op location (fun pe => wf_simple (p_simple (fst pe)) = true) H1 H2) as [_ P]. exact P.
Qed.

Lemma pdel_loop_np l ps2 : forall l1, (forall k v, In (k, v) l1 -> wf_simple (p_simple (fst v)) = true) -> pdel_loop l ps2 l1 <> Panic.
Proof.
  induction l1 as [|[n [p1 e1]] r IH]; intros W; [discriminate|]. cbn [pdel_loop].
  assert (pdel_loop l ps2 r <> Panic) as Hr by (apply IH; intros k v Hin; apply (W k v); right; exact Hin).
  destruct (pdel_loop l ps2 r) as [rest| |]; [|contradiction|discriminate]. cbn [bind].
  destruct (assoc n ps2) as [[q e2]|]; [|discriminate].
  destruct (type_of_simple_ok (p_simple p1) (W n (p1, e1) (or_introl eq_refl))) as [t Ht]. rewrite Ht. discriminate.
Qed.

Lemma padd_loop_np l ps1 : (forall k v, In (k, v) ps1 -> wf_simple (p_simple (fst v)) = true) -> forall l2, padd_loop l ps1 l2 <> Panic.
Proof.
  intros W. induction l2 as [|[n [p2 e2]] r IH]; [discriminate|]. cbn [padd_loop].
  destruct (padd_loop l ps1 r) as [rest| |]; [|contradiction|discriminate]. cbn [bind].
  destruct (assoc n ps1) as [[p1 e1]|] eqn:A; [|discriminate].
  destruct (type_of_simple_ok (p_simple p1) (W n (p1, e1) (assoc_In _ _ _ A))) as [t Ht]. rewrite Ht. discriminate.
Qed.

Lemma param_ext_np k it1 op1 it2 op2 :
  closed_xparams (xi_params it1) = true -> closed_xparams (xo_params op1) = true -> param_ext k it1 op1 it2 op2 <> Panic.
Proof.
  intros C1 C2. unfold param_ext. generalize param_locations as ls. induction ls as [|location r IH]; [discriminate|].
  cbn [param_ext_locs]. unfold param_ext_at.
  pose proof (get_xparams_closed _ _ location C1 C2) as W.
  pose proof (pdel_loop_np (param_loc k location) (get_xparams (xi_params it2) (xo_params op2) location) _ W) as D.
  destruct (pdel_loop _ _ _) as [del| |]; [|contradiction|discriminate]. cbn [bind].
  pose proof (padd_loop_np (param_loc k location) _ W (get_xparams (xi_params it2) (xo_params op2) location)) as A.
  destruct (padd_loop _ _ _) as [ac| |]; [|contradiction|discriminate]. cbn [bind].
  destruct (param_ext_locs k it1 op1 it2 op2 r) as [rest| |]; [discriminate | contradiction | discriminate].
Qed.

Lemma schema_ext_np d k code : forall c1 c2, (forall se, In se c2 -> closedb d (fst se) = true) -> schema_ext k code c1 c2 <> Panic.
Proof.
  induction c1 as [|[x1 e1] r1 IH]; intros c2 W; [discriminate|]. destruct c2 as [|[x2 e2] r2]; [discriminate|]. cbn [schema_ext].
  destruct (type_of_props_ok d x2 (W (x2, e2) (or_introl eq_refl))) as [t Ht]. rewrite Ht. cbn [bind].
  pose proof (IH r2 (fun se Hs => W se (or_intror Hs))) as R.
  destruct (schema_ext k code r1 r2) as [rest| |]; [discriminate | contradiction | discriminate].
Qed.

Lemma body_ext_np d k op1 op2 : closed_xop d op2 = true -> body_ext k op1 op2 <> Panic.
Proof.
  intros C. unfold closed_xop in C. apply andb_prop in C as [_ Cr]. rewrite forallb_forall in Cr. unfold body_ext.
  induction (xo_resps op1) as [|[c r1] r IH]; [discriminate|]. cbn [body_loop].
  assert (forall se, In se (match assocZ c (xo_resps op2) with Some r2 => xr_body r2 | None => [] end) -> closedb d (fst se) = true) as W.
  { destruct (assocZ c (xo_resps op2)) as [r2|] eqn:A; [|intros se []].
    pose proof (Cr (c, r2) (assocZ_in _ _ _ A)) as X. cbn [snd] in X. unfold closed_xresp in X. rewrite forallb_forall in X. exact X. }
  pose proof (schema_ext_np d k c (xr_body r1) _ W) as S.
  destruct (schema_ext k c (xr_body r1) _) as [here| |]; [|contradiction|discriminate]. cbn [bind].
  destruct (body_loop k (xo_resps op2) r) as [rest| |]; [discriminate | contradiction | discriminate].
Qed.

Lemma find_xum_in (um : xum_t) k v : find_xum k um = Some v -> exists k', In (k', v) um.
Proof.
  induction um as [|[k' v'] r IH]; [discriminate|]. cbn [find_xum].
  destruct (str_eqb (fst k) (fst k') && str_eqb (snd k) (snd k')).
  - intros E. inversion E; subst. exists k'. left. reflexivity.
  - intros E. destruct (IH E) as [k2 H]. exists k2. right. exact H.
Qed.

Lemma ops_added_np d1 d2 um1 : (forall k it op, In (k, (it, op)) um1 -> closed_xitem it = true /\ closed_xop d1 op = true) ->
  forall es seen, (forall k it op, In (k, (it, op)) es -> closed_xop d2 op = true) -> ops_added um1 es seen <> Panic.
Proof.
  intros W1. induction es as [|[k [it2 op2]] r IH]; intros seen W2; [discriminate|]. cbn [ops_added].
  assert (forall s0, ops_added um1 r s0 <> Panic) as R by (intros s0; apply IH; intros k0 i0 o0 H; apply (W2 k0 i0 o0); right; exact H).
  destruct (find_xum k um1) as [[it1 op1]|] eqn:F; [|apply R].
  destruct (find_xum_in _ _ _ F) as [k' Hin]. destruct (W1 _ _ _ Hin) as [Ci Co].
  pose proof Co as Co'. unfold closed_xop in Co'. apply andb_prop in Co' as [Cp _].
  pose proof (param_ext_np k it1 op1 it2 op2 Ci Cp) as P.
  destruct (param_ext k it1 op1 it2 op2) as [pd| |]; [|contradiction|discriminate]. cbn [bind].
  pose proof (body_ext_np d2 k op1 op2 (W2 k it2 op2 (or_introl eq_refl))) as B.
  destruct (body_ext k op1 op2) as [bd| |]; [|contradiction|discriminate]. cbn [bind].
  specialize (R (fst k :: seen)). destruct (ops_added um1 r (fst k :: seen)); [discriminate | contradiction | discriminate].
Qed.

Theorem analyse_ext_np d1 d2 xa xb : closed_xdoc d1 xa = true -> closed_xdoc d2 xb = true -> analyse_ext xa xb <> Panic.
Proof.
  intros Ca Cb. unfold closed_xdoc in Ca, Cb. rewrite forallb_forall in Ca, Cb. unfold analyse_ext.
  assert (ops_added (xurl_methods xa) (xurl_methods xb) [] <> Panic) as A.
  { apply (ops_added_np d1 d2).
    - intros k it op Hin. specialize (Ca _ Hin). cbn [fst snd] in Ca. apply andb_prop in Ca. exact Ca.
    - intros k it op Hin. specialize (Cb _ Hin). cbn [fst snd] in Cb. apply andb_prop in Cb as [_ X]. exact X. }
  destruct (ops_added _ _ _); [discriminate | contradiction | discriminate].
Qed.

(* the whole command: no Panic branch on closed documents, extensions included *)
Theorem analyse_all_total fuel a b xa xb :
  closed_swaggerb a = true -> closed_swaggerb b = true -> closed_xdoc (sw_defs a) xa = true -> closed_xdoc (sw_defs b) xb = true ->
  analyse_all fuel a b xa xb <> Panic.
Proof.
  intros Ca Cb Xa Xb. unfold analyse_all.
  pose proof (analyse_total fuel a b Ca Cb) as T. destruct (analyse fuel a b) as [ds| |]; [|contradiction|discriminate]. cbn [bind].
  pose proof (analyse_ext_np _ _ xa xb Xa Xb) as E. destruct (analyse_ext xa xb); [discriminate | contradiction | discriminate].
Qed.

(* Tools/EscapeLemmas.v — proofs about Tools/Escape.v *)
From GS Require Import Base.Str Tools.Escape.

(* --- line comments --- *)
Lemma lines_acc_app_nonl pre x cur :
  (forall c, In c pre -> c <> NL) -> lines_acc (pre ++ x) cur = lines_acc x (rev pre ++ cur).
Proof.
  revert cur. induction pre as [|c pre IH]; intros cur H; [reflexivity|].
  cbn [app lines_acc]. destruct (N.eqb_spec c NL) as [E|E].
  - exfalso. apply (H c); [now left | assumption].
  - rewrite IH by (intros d Hd; apply H; now right). cbn [rev]. now rewrite <- app_assoc.
Qed.

(* the line being accumulated starts with // as soon as the accumulator does *)
Lemma first_line_commented : forall y cur0 l ls,
  lines_acc y (cur0 ++ [SLASH; SLASH]) = l :: ls -> starts_comment l = true.
Proof.
  induction y as [|c y IH]; intros cur0 l ls; cbn [lines_acc].
  - intro H. injection H as <- _. rewrite rev_app_distr. reflexivity.
  - destruct (N.eqb c NL).
    + intro H. injection H as <- _. rewrite rev_app_distr. reflexivity.
    + intro H. apply (IH (c :: cur0) l ls). exact H.
Qed.

Lemma lines_acc_nonempty y cur : lines_acc y cur <> [].
Proof. revert cur. induction y as [|c y IH]; intro cur; cbn; [discriminate|]. destruct (N.eqb c NL); [discriminate | apply IH]. Qed.

(* every line produced after the first one starts with // *)
Lemma pad_comment_lines x pad :
  (forall c, In c pad -> c <> NL) ->
  forall cur, Forall (fun l => starts_comment l = true) (tl (lines_acc (pad_comment x pad) cur)).
Proof.
  intro Hp. induction x as [|c r IH]; intro cur; cbn [pad_comment]; [constructor|].
  destruct (N.eqb_spec c NL) as [E|E].
  - cbn [lines_acc]. rewrite N.eqb_refl. cbn [tl].
    assert (S1 : N.eqb SLASH NL = false) by reflexivity.
    cbn [lines_acc]. rewrite !S1.
    rewrite (lines_acc_app_nonl pad (pad_comment r pad) [SLASH; SLASH] Hp).
    specialize (IH (rev pad ++ [SLASH; SLASH])).
    destruct (lines_acc (pad_comment r pad) (rev pad ++ [SLASH; SLASH])) as [|l ls] eqn:El.
    + constructor.
    + constructor; [|exact IH]. eapply first_line_commented. exact El.
  - cbn [lines_acc]. apply N.eqb_neq in E. rewrite E. apply IH.
Qed.

Lemma line_comment_safe x pad pre :
  (forall c, In c pad -> c <> NL) -> (forall c, In c pre -> c <> NL) ->
  Forall (fun l => starts_comment l = true) (lines (SLASH :: SLASH :: pre ++ pad_comment x pad)).
Proof.
  intros Hp Hpre. unfold lines.
  assert (S1 : N.eqb SLASH NL = false) by reflexivity.
  cbn [lines_acc]. rewrite !S1.
  rewrite (lines_acc_app_nonl pre (pad_comment x pad) [SLASH; SLASH] Hpre).
  pose proof (pad_comment_lines x pad Hp (rev pre ++ [SLASH; SLASH])) as T.
  destruct (lines_acc (pad_comment x pad) (rev pre ++ [SLASH; SLASH])) as [|l ls] eqn:El; [constructor|].
  constructor; [|exact T]. eapply first_line_commented. exact El.
Qed.

(* --- block comments --- *)
Lemma block_comment_cons_star_slash r : block_comment (STAR :: SLASH :: r) = 91%N :: STAR :: 93%N :: SLASH :: block_comment r.
Proof. reflexivity. Qed.

Lemma block_comment_cons_other c r :
  (forall d r', r = d :: r' -> N.eqb c STAR && N.eqb d SLASH = false) ->
  block_comment (c :: r) = c :: block_comment r.
Proof.
  intro H. destruct r as [|d r']; [reflexivity|].
  cbn [block_comment]. now rewrite (H d r' eq_refl).
Qed.

Lemma block_comment_eq c d r :
  block_comment (c :: d :: r) =
  if N.eqb c STAR && N.eqb d SLASH then 91%N :: STAR :: 93%N :: SLASH :: block_comment r else c :: block_comment (d :: r).
Proof. reflexivity. Qed.

Lemma has_close_cons c x : has_close (c :: x) = match x with d :: _ => (N.eqb c STAR && N.eqb d SLASH) || has_close x | [] => false end.
Proof. reflexivity. Qed.

(* the head of block_comment (d :: r) is d itself or '[' *)
Lemma block_comment_head d r : exists t, block_comment (d :: r) = d :: t \/ (block_comment (d :: r) = 91%N :: t /\ N.eqb d STAR = true).
Proof.
  destruct r as [|f r']; [exists []; now left|].
  rewrite block_comment_eq. destruct (N.eqb d STAR && N.eqb f SLASH) eqn:E.
  - eexists. right. split; [reflexivity|]. now apply andb_true_iff in E as [E _].
  - eexists. now left.
Qed.

Lemma block_comment_no_close : forall n x, length x <= n -> has_close (block_comment x) = false.
Proof.
  induction n as [|n IH]; intros x Hl.
  - destruct x; [reflexivity | cbn in Hl; lia].
  - destruct x as [|c r]; [reflexivity|].
    destruct r as [|d r']; [reflexivity|].
    rewrite block_comment_eq.
    destruct (N.eqb c STAR && N.eqb d SLASH) eqn:E.
    + assert (Hr : has_close (block_comment r') = false) by (apply IH; cbn in *; lia).
      rewrite !has_close_cons. cbn [N.eqb STAR SLASH andb orb].
      change (N.eqb 91 STAR) with false. change (N.eqb STAR STAR) with true. change (N.eqb 93 SLASH) with false.
      change (N.eqb 93 STAR) with false. cbn [andb orb].
      destruct (block_comment r') as [|e t]; [reflexivity|]. rewrite andb_false_r. exact Hr.
    + assert (Hr : has_close (block_comment (d :: r')) = false) by (apply IH; cbn in *; lia).
      rewrite has_close_cons.
      destruct (block_comment_head d r') as [t [H|[H Hd]]]; rewrite H in *.
      * rewrite E, Hr. reflexivity.
      * rewrite Hr, orb_false_r. change (N.eqb 91 SLASH) with false. apply andb_false_r.
Qed.

Lemma block_comment_safe x : has_close (block_comment x) = false.
Proof. apply (block_comment_no_close (length x)). lia. Qed.

(* --- raw strings --- *)
Lemma run_raw_escape x : forall acc,
  run RAW (escape_backticks x ++ [BQ]) acc = Some (acc ++ remove_cr x).
Proof.
  induction x as [|c r IH]; intro acc.
  - cbn. now rewrite app_nil_r.
  - cbn [escape_backticks]. destruct (N.eqb_spec c BQ) as [->|E].
    + unfold bq_escape. cbn [app run]. cbn. rewrite IH. cbn. now rewrite <- app_assoc.
    + cbn [app run]. apply N.eqb_neq in E. rewrite E.
      rewrite IH. cbn [remove_cr filter].
      destruct (N.eqb c CR); cbn [negb]; [reflexivity|]. now rewrite <- app_assoc.
Qed.

Lemma raw_string_safe x : eval_go_concat (BQ :: escape_backticks x ++ [BQ]) = Some (remove_cr x).
Proof. unfold eval_go_concat. cbn [run]. rewrite N.eqb_refl. apply run_raw_escape. Qed.

Lemma remove_cr_id x : (forall c, In c x -> c <> CR) -> remove_cr x = x.
Proof.
  induction x as [|c r IH]; intro H; [reflexivity|]. cbn.
  destruct (N.eqb_spec c CR) as [E|E]; [exfalso; apply (H c); [now left|assumption]|].
  cbn. f_equal. apply IH. intros d Hd. apply H. now right.
Qed.

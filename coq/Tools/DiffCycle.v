(* Tools/DiffCycle.v — how the analyser stops on circular references (C12): the first time a reference is followed at a
   location the key of that location is recorded; a reference met again under a recorded key is not followed.  The key of
   a location is made of the url, the method, the first node and — only when it is an array — the node below it: it does
   not grow with the depth, which is what bounds the number of references followed along one path of the walk. *)
From GS Require Import Base.Str Gen.GenDiffTables Tools.DiffTypes Tools.DiffSpec Tools.DiffModel Tools.DiffModelLemmas.

(* a reference under a key that was already recorded: nothing is compared, nothing is recorded, whatever the definitions *)
Lemma visited_ref_is_cut f d1 d2 l x1 x2 sta :
  is_ref x1 = true -> is_ref x2 = true -> sc_ref x1 = sc_ref x2 -> mem (schema_location_key l) (visited sta) = true ->
  compare_schema (S f) d1 d2 l x1 x2 sta = Ok ([], sta).
Proof.
  intros R1 R2 E V. cbn [compare_schema]. unfold check_ref_change. rewrite R1, R2, E, str_eqb_refl. cbn [andb bind nonempty].
  rewrite V. reflexivity.
Qed.

(* the key does not change below the first child: adding a node to a location that already has a child leaves it as it is *)
Lemma key_stable_below_first_child l n c x :
  l_node l = Some (Node (n_field n) (n_type n) (n_array n) (Some c)) ->
  schema_location_key (loc_add l x) = schema_location_key l.
Proof.
  intros H. unfold schema_location_key, loc_add. rewrite H. cbn [l_node l_method l_url add_leaf n_field n_type n_child n_array].
  destruct c as [cf ct ca cc]. destruct cc; reflexivity.
Qed.

(* Tools/Escape.v — model of the text helpers of generator/template_repo.go (padComment, blockComment,
   escapeBackticks) and of the Go lexical contexts they must keep free text inside.  Definitions only. *)
From GS Require Import Base.Str.

Definition NL : N := 10.  Definition CR : N := 13.
Definition SLASH : N := 47.  Definition STAR : N := 42.  Definition BQ : N := 96.
Definition PLUS : N := 43.  Definition DQ : N := 34.

(* padComment(str, pad): strings.Join(strings.Split(str, "\n"), "\n//"+pad) *)
Fixpoint pad_comment (x pad : str) : str :=
  match x with
  | [] => []
  | c :: r => if N.eqb c NL then NL :: SLASH :: SLASH :: pad ++ pad_comment r pad else c :: pad_comment r pad
  end.

(* blockComment(str): strings.ReplaceAll(str, "*/", "[*]/") — leftmost, non-overlapping *)
Fixpoint block_comment (x : str) : str :=
  match x with
  | [] => []
  | c :: r =>
      match r with
      | d :: r' => if N.eqb c STAR && N.eqb d SLASH then 91 :: STAR :: 93 :: SLASH :: block_comment r'
                   else c :: block_comment r
      | [] => [c]
      end
  end%N.

(* escapeBackticks(arg): strings.ReplaceAll(arg, "`", "`+\"`\"+`") *)
Definition bq_escape : str := [BQ; PLUS; DQ; BQ; DQ; PLUS; BQ].
Fixpoint escape_backticks (x : str) : str :=
  match x with
  | [] => []
  | c :: r => if N.eqb c BQ then bq_escape ++ escape_backticks r else c :: escape_backticks r
  end.

(* ---- lexical contexts ---- *)

(* lines of a text (split at LF; CR does not end a Go line comment) *)
Fixpoint lines_acc (x cur : str) : list str :=
  match x with
  | [] => [rev cur]
  | c :: r => if N.eqb c NL then rev cur :: lines_acc r [] else lines_acc r (c :: cur)
  end.
Definition lines (x : str) : list str := lines_acc x [].

Definition starts_comment (l : str) : bool :=
  match l with a :: b :: _ => N.eqb a SLASH && N.eqb b SLASH | _ => false end.

(* does the text contain the block-comment terminator? *)
Fixpoint has_close (x : str) : bool :=
  match x with
  | [] => false
  | c :: r => match r with
              | d :: _ => (N.eqb c STAR && N.eqb d SLASH) || has_close r
              | [] => false
              end
  end.

(* evaluation of a Go expression of the shape  RAW ( + "`" + RAW )*  as the compiler does:
   raw string literals drop carriage returns; any other token sequence is rejected (None). *)
Inductive lexst := S0 | RAW | Q0 | Q1 | Q2 | Q3 | Q4.

Fixpoint run (st : lexst) (t acc : str) : option str :=
  match t with
  | [] => match st with Q0 => Some acc | _ => None end
  | c :: r =>
      match st with
      | S0 => if N.eqb c BQ then run RAW r acc else None
      | RAW => if N.eqb c BQ then run Q0 r acc
               else run RAW r (if N.eqb c CR then acc else acc ++ [c])
      | Q0 => if N.eqb c PLUS then run Q1 r acc else None
      | Q1 => if N.eqb c DQ then run Q2 r acc else None
      | Q2 => if N.eqb c BQ then run Q3 r (acc ++ [BQ]) else None
      | Q3 => if N.eqb c DQ then run Q4 r acc else None
      | Q4 => if N.eqb c PLUS then run S0 r acc else None
      end
  end.

Definition eval_go_concat (t : str) : option str := run S0 t [].

Definition remove_cr (x : str) : str := filter (fun c => negb (N.eqb c CR)) x.

(* ---- template sites (consumed by Gen/GenTextSites.v) ---- *)
Inductive ctx := CLineComment | CBlockComment | CRawString | CInterpString | CCode.

Record site := { st_file : str; st_line : N; st_field : str; st_ctx : ctx; st_funcs : list str; st_printf : str }.

Definition has_fn (f : str) (x : site) : bool := mem f (st_funcs x).

(* sanitising helpers: their output consists of letters, digits and single spaces/underscores/dashes *)
Definition sanitizers : list str :=
  [s "humanize"; s "pascalize"; s "camelize"; s "snakize"; s "dasherize"; s "varname"; s "toPackageName"; s "toPackage"; s "toPackagePath";
   s "mediaGoName"; s "len"; s "httpStatus"].

Definition sanitized (x : site) : bool := existsb (fun f => mem f (st_funcs x)) sanitizers.

(* Go-syntax quoting: printf "%q" / "%#v" / strconv.Quote emit one interpreted string literal *)
Definition go_quoted (x : site) : bool :=
  str_eqb (st_printf x) (s "%q") || str_eqb (st_printf x) (s "%#v") || has_fn (s "quote") x || has_fn (s "printGoLiteral") x.

(* JSON text (encoding/json) never contains a raw line feed: control characters are escaped *)
Definition json_text (x : site) : bool := has_fn (s "json") x || has_fn (s "prettyjson") x.

Definition site_ok (x : site) : bool :=
  sanitized x ||
  match st_ctx x with
  | CLineComment => has_fn (s "comment") x || go_quoted x || (json_text x && negb (has_fn (s "prettyjson") x))
  | CBlockComment => has_fn (s "blockcomment") x
  | CRawString => has_fn (s "escapeBackticks") x
  | CInterpString => false
  | CCode => go_quoted x || has_fn (s "arrayInitializer") x
  end.

(* Tools/DiffSound.v — C13 one level up: for primitive schemas of the same type, a value accepted by the first
   schema and rejected by the second yields a Breaking (request side) entry of CompareProps — composition of the
   value-level soundness lemmas through the control flow of compare_props / check_numeric / check_string.
   The gaps of the analyser are exactly the excluded cases (stated in Props/C13.v as refuted witnesses). *)
From Coq Require Import Lia.
From GS Require Import Base.Str Gen.GenDiffTables Tools.DiffTypes Tools.DiffSpec Tools.DiffReport Tools.DiffModel Tools.DiffModelLemmas.

Definition breaking_list (l : list tdiff) : bool := existsb (fun t => breaking_req (td_change t)) l.

Lemma wideness_not_structural t : wideness t <> None -> str_eqb t (s "array") = false /\ str_eqb t (s "object") = false /\ str_eqb t (s "string") = false.
Proof.
  intros W. repeat split; apply Bool.not_true_iff_false; intros E; apply str_eqb_eq in E; subst t; apply W; vm_compute; reflexivity.
Qed.

(* two unreferenced schemas of the same numeric type and format: CompareProps is checkNumericTypeChanges *)
Lemma compare_props_numeric x1 x2 t :
  sc_ref x1 = [] -> sc_ref x2 = [] -> sc_typ x1 = [t] -> sc_typ x2 = [t] -> sc_format x1 = sc_format x2 -> wideness t <> None ->
  compare_props x1 x2 = Ok (check_numeric x1 x2).
Proof.
  intros R1 R2 T1 T2 F W. destruct (wideness_not_structural t W) as [NA [NO NS]].
  unfold compare_props. rewrite T1, T2. cbn [is_primitive_type is_array_type]. rewrite NA, NO. cbn [negb andb Bool.eqb].
  cbn [nonempty]. unfold check_ref_change, is_ref. rewrite R1, R2. cbn [is_empty negb andb Bool.eqb bind nonempty].
  cbn [hd_type]. rewrite str_eqb_refl, F, str_eqb_refl. cbn [negb orb app].
  unfold check_string. rewrite T1, T2. cbn [hd_type]. rewrite NS. cbn [andb nonempty]. reflexivity.
Qed.

Theorem numeric_schema_sound x1 x2 t v :
  sc_ref x1 = [] -> sc_ref x2 = [] -> sc_typ x1 = [t] -> sc_typ x2 = [t] -> sc_format x1 = sc_format x2 -> wideness t <> None ->
  (* same exclusivity on both sides, or exclusivity added: the analyser looks at the bounds only when no flag changed *)
  ((v_xmax (sc_vals x1) = v_xmax (sc_vals x2) /\ v_xmin (sc_vals x1) = v_xmin (sc_vals x2) /\
    sat_numeric (sc_vals x1) v = true /\ sat_numeric (sc_vals x2) v = false) \/
   (v_xmax (sc_vals x1) = false /\ v_xmax (sc_vals x2) = true) \/ (v_xmin (sc_vals x1) = false /\ v_xmin (sc_vals x2) = true)) ->
  exists l, compare_props x1 x2 = Ok l /\ breaking_list l = true.
Proof.
  intros R1 R2 T1 T2 F W H. exists (check_numeric x1 x2). split; [apply (compare_props_numeric x1 x2 t); assumption|].
  destruct H as [[EX [EN [S1 S2]]]|H].
  - unfold check_numeric. rewrite T1, T2. cbn [hd_type]. destruct (wideness t) as [w|] eqn:Ew; [|contradiction].
    rewrite <- EX, <- EN.
    assert (forall b, b && negb b = false) as Z1 by (intros []; reflexivity).
    assert (forall b, negb b && b = false) as Z2 by (intros []; reflexivity).
    rewrite !Z1, !Z2. cbn [app nonempty]. apply (compare_numeric_sound (sc_vals x1) (sc_vals x2) v EX EN S1 S2).
  - apply exclusive_added_sound; [exact H | rewrite T1; exact W | rewrite T2; exact W].
Qed.

(* strings: length bounds, enumeration, pattern ([matches] stands for the regular-expression engine) *)
Definition sat_string (matches : str -> str -> bool) (x : vals) (len : Z) (v : str) : bool :=
  sat_range (v_minlen x) (v_maxlen x) len &&
  (if is_empty (v_pattern x) then true else matches (v_pattern x) v) &&
  (match v_enum x with [] => true | e => mem v (map enumv_fmt e) end).

Lemma compare_props_string x1 x2 :
  sc_ref x1 = [] -> sc_ref x2 = [] -> sc_typ x1 = [s "string"] -> sc_typ x2 = [s "string"] -> sc_format x1 = sc_format x2 ->
  compare_props x1 x2 = Ok (check_string x1 x2).
Proof.
  intros R1 R2 T1 T2 F. unfold compare_props. rewrite T1, T2.
  change (is_primitive_type [s "string"]) with true. change (is_array_type [s "string"]) with false. cbn [negb Bool.eqb nonempty].
  unfold check_ref_change, is_ref. rewrite R1, R2. cbn [is_empty negb andb Bool.eqb bind nonempty].
  cbn [hd_type]. rewrite str_eqb_refl, F, str_eqb_refl. cbn [negb orb app].
  destruct (nonempty (check_string x1 x2)) eqn:E; [reflexivity|].
  unfold check_numeric. rewrite T1. cbn [hd_type]. change (wideness (s "string")) with (@None Z).
  destruct (check_string x1 x2); [reflexivity | discriminate].
Qed.

Theorem string_schema_sound matches x1 x2 len v :
  sc_ref x1 = [] -> sc_ref x2 = [] -> sc_typ x1 = [s "string"] -> sc_typ x2 = [s "string"] -> sc_format x1 = sc_format x2 ->
  (* the analyser compares enumerations only when the first schema has one *)
  (v_enum (sc_vals x1) = [] -> v_enum (sc_vals x2) = []) ->
  sat_string matches (sc_vals x1) len v = true -> sat_string matches (sc_vals x2) len v = false ->
  exists l, compare_props x1 x2 = Ok l /\ breaking_list l = true.
Proof.
  intros R1 R2 T1 T2 F HE S1 S2. exists (check_string x1 x2). split; [apply compare_props_string; assumption|].
  unfold check_string. rewrite T1, T2. cbn [hd_type]. rewrite str_eqb_refl. cbn [andb].
  unfold sat_string in S1, S2. apply andb_prop in S1 as [S1 E1]. apply andb_prop in S1 as [L1 P1].
  unfold breaking_list. rewrite !existsb_app.
  destruct (sat_range (v_minlen (sc_vals x2)) (v_maxlen (sc_vals x2)) len) eqn:L2.
  - cbn [andb] in S2.
    destruct (str_eqb (v_pattern (sc_vals x1)) (v_pattern (sc_vals x2))) eqn:PE.
    + apply str_eqb_eq in PE. rewrite <- PE, P1 in S2. cbn [andb] in S2.
      (* the enumeration rejects v *)
      destruct (v_enum (sc_vals x1)) as [|e1 r1] eqn:En1.
      * rewrite (HE eq_refl) in S2. discriminate.
      * cbn [nonempty]. destruct (v_enum (sc_vals x2)) as [|e2 r2] eqn:En2; [discriminate|].
        apply mem_In in E1. apply mem_false in S2.
        apply in_map_iff in E1 as [e [Ee Hin]].
        assert (existsb (fun t => breaking_req (td_change t)) (compare_enums (e1 :: r1) (e2 :: r2)) = true) as X.
        { apply (enum_deleted_sound (e1 :: r1) (e2 :: r2) e).
          - apply in_map. exact Hin.
          - rewrite Ee. exact S2. }
        rewrite X. rewrite !Bool.orb_true_r. reflexivity.
    + (* the pattern changed: reported as a changed type *)
      cbn [existsb]. assert (breaking_req ChangedType = true) as X by (vm_compute; reflexivity).
      cbn [td_change td]. rewrite X. cbn [orb]. rewrite !Bool.orb_true_r. reflexivity.
  - pose proof (compare_range_sound (s "MinLength") (s "MaxLength") _ _ _ _ len L1 L2) as X.
    rewrite existsb_app in X. apply orb_prop in X as [X|X]; rewrite X; [reflexivity | rewrite Bool.orb_true_r; reflexivity].
Qed.

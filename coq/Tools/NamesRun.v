(* Tools/NamesRun.v — evaluation of the name-mangling model on cases observed on the implementation. *)
From GS Require Import Base.Str Tools.Names.

Record ncase := { n_tbl : list (rune * uinfo); n_name : runes;
                  n_go : runes; n_pascal : runes; n_var : option runes; n_file : runes; n_snake : runes; n_human : runes }.

Definition opt_runes_eqb (a b : option runes) : bool :=
  match a, b with Some x, Some y => runes_eqb x y | None, None => true | _, _ => false end.

(* indices of the functions on which model and implementation differ *)
Definition run_n (c : ncase) : list N :=
  let u := table_uni (n_tbl c) in
  (if runes_eqb (to_go_name u (prefix_for_name u) (n_name c)) (n_go c) then [] else [1%N]) ++
  (if runes_eqb (pascalize u (n_name c)) (n_pascal c) then [] else [2%N]) ++
  (if opt_runes_eqb (mangle_var_name u (n_name c)) (n_var c) then [] else [3%N]) ++
  (if runes_eqb (to_file_name u (n_name c)) (n_file c) then [] else [4%N]) ++
  (if runes_eqb (mangle_file_name u (n_name c)) (n_snake c) then [] else [5%N]) ++
  (if runes_eqb (to_human_title u (n_name c)) (n_human c) then [] else [6%N]) ++
  (* the laws the theorems assume of Go's unicode tables, on every tabulated rune: letters are in L/M/N/Pc, identifier
     characters stay identifier characters under case mapping, upper-case letters are their own upper case *)
  (if forallb (fun e => let r := fst e in
                 implb (u_letter u r) (u_lmnpc u r) &&
                 implb (ident_char u r) (ident_char u (u_toupper u r) && ident_char u (u_tolower u r)) &&
                 implb (u_upper u r) (N.eqb (u_toupper u r) r)) (n_tbl c) then [] else [7%N]).

(* gatherOperations *)
Record kcase := { k_tbl : list (rune * uinfo); k_ops : list opspec;
                  k_names : list runes;                       (* names of the resulting map, sorted *)
                  k_full : list (runes * (runes * runes)) }.   (* name -> (method, path), sorted by name; [] when keys tie *)

Fixpoint insert_op (u : uni) (o : opspec) (l : list opspec) : list opspec :=
  match l with
  | [] => [o]
  | h :: t => if str_ltb (op_key u (o_method o) (o_path o)) (op_key u (o_method h) (o_path h)) then o :: l else h :: insert_op u o t
  end.
Definition sort_ops (u : uni) (l : list opspec) : list opspec := fold_right (insert_op u) [] l.

Fixpoint names_eqb (a b : list runes) : bool :=
  match a, b with [] , [] => true | x :: a', y :: b' => runes_eqb x y && names_eqb a' b' | _, _ => false end.
Fixpoint full_eqb (a b : list (runes * (runes * runes))) : bool :=
  match a, b with
  | [], [] => true
  | (n1, (m1, p1)) :: a', (n2, (m2, p2)) :: b' => runes_eqb n1 n2 && runes_eqb m1 m2 && runes_eqb p1 p2 && full_eqb a' b'
  | _, _ => false
  end.

Definition run_k (c : kcase) : list N :=
  let u := table_uni (k_tbl c) in
  let m := gather_operations u (sort_ops u (k_ops c)) in
  let names := sort_str (map fst m) in
  (if names_eqb names (k_names c) then [] else [1%N]) ++
  match k_full c with
  | [] => []
  | full => if full_eqb (sort_kv (map (fun kv => (fst kv, (o_method (snd kv), o_path (snd kv)))) m)) full then [] else [2%N]
  end.

(* plan verdicts observed on whole generation runs (collision experiments) *)
Record pcase := { p_tbl : list (rune * uinfo); p_ops : list opspec; p_defs : list runes; p_props : list runes; p_ok : bool;
                  p_pkgs : pkg_tbl; p_cli_ok : bool }.
Definition is_some {A} (o : option A) : bool := match o with Some _ => true | None => false end.
(* p_ok: server, client and models were generated; p_cli_ok: the cli too (it has one package for all commands) *)
Definition run_p (c : pcase) : list N :=
  let u := table_uni (p_tbl c) in
  let rest := is_some (plan_defs u (p_defs c)) && is_some (plan_props u (p_props c)) in
  let ok := is_some (plan_ops_pkg u (p_pkgs c) false (sort_ops u (p_ops c))) && rest in
  let ok_cli := is_some (plan_ops_pkg u (p_pkgs c) true (sort_ops u (p_ops c))) && rest in
  (if Bool.eqb ok (p_ok c) then [] else [1%N]) ++ (if Bool.eqb ok_cli (p_cli_ok c) then [] else [3%N]).

(* renameTimeout through paramMappings: distinct parameter names -> the private timeout field of the client params struct *)
Record tcase := { t_tbl : list (rune * uinfo); t_params : list runes; t_timeout : runes }.
Definition run_t (c : tcase) : list N :=
  match timeout_name (table_uni (t_tbl c)) (t_params c) with
  | Some r => if runes_eqb r (t_timeout c) then [] else [1%N]
  | None => [2%N]
  end.

Inductive anycase := CN (c : ncase) | CK (c : kcase) | CP (c : pcase) | CT (c : tcase).
Fixpoint run_cases_from (i : N) (l : list anycase) : list (N * list N) :=
  match l with
  | [] => []
  | c :: r =>
      let d := match c with CN c => run_n c | CK c => run_k c | CP c => run_p c | CT c => run_t c end in
      match d with [] => run_cases_from (i + 1) r | _ => (i, d) :: run_cases_from (i + 1) r end
  end.
Definition run_cases (l : list anycase) : list (N * list N) := run_cases_from 0 l.


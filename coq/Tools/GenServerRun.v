(* Tools/GenServerRun.v — evaluation harness for the server/client/security models (cases.v files import this). *)
From GS Require Import Base.Str Tools.Decimal Tools.GenServer Tools.IntText Tools.ClientServer.

Definition value_eqb (a b : value) : bool :=
  match a, b with
  | VStr x, VStr y => str_eqb x y
  | VInt x, VInt y => Z.eqb x y
  | VBool x, VBool y => Bool.eqb x y
  | _, _ => false
  end.

(* C03: one parameter, the raw occurrences of its key, what the compiled server did *)
Record bcase := { b_param : sparam; b_raws : list str; b_has_key : bool; b_reached : bool; b_value : option value }.
Definition judge_b (c : bcase) : bool :=
  match bind (b_param c) (b_raws c) (b_has_key c) with
  | Reject => negb (b_reached c)
  | Absent => b_reached c && match b_value c with None => true | Some _ => false end
  | Bound v => b_reached c && match b_value c with Some w => value_eqb v w | None => false end
  end.

(* C03: one array parameter *)
Record rcase := { ra_param : aparam; ra_raws : list str; ra_has_key : bool; ra_reached : bool; ra_values : option (list value) }.
Fixpoint values_eqb (a b : list value) : bool :=
  match a, b with [], [] => true | x :: r, y :: r' => value_eqb x y && values_eqb r r' | _, _ => false end.
Definition judge_r (c : rcase) : bool :=
  match bind_array (ra_param c) (ra_raws c) (ra_has_key c) with
  | AReject => negb (ra_reached c)
  | AAbsent => ra_reached c && match ra_values c with None | Some [] => true | Some _ => false end
  | ABound vs => ra_reached c && match ra_values c with Some ws => values_eqb vs ws | None => false end
  end.

(* C04: the text the client writes for a value (swag.FormatInt64 / FormatBool) *)
Record fcase := { f_val : value; f_text : str }.
Definition judge_f (c : fcase) : bool := str_eqb (render (f_val c)) (f_text c).

(* C03/C04: splitting by collection format *)
Record scase := { s_sep : N; s_raw : str; s_items : list str }.
Fixpoint strs_eqb (a b : list str) : bool :=
  match a, b with [], [] => true | x :: r, y :: r' => str_eqb x y && strs_eqb r r' | _, _ => false end.
Definition judge_s (c : scase) : bool := strs_eqb (split_by (s_sep c) (s_raw c)) (s_items c).

(* C04: joining, then splitting back *)
Record jcase := { j_sep : N; j_items : list str; j_joined : str }.
Definition judge_j (c : jcase) : bool := str_eqb (join_by (j_sep c) (j_items c)) (j_joined c).

(* C04: response dispatch. kind: 0 typed, 1 default, 2 API error *)
Record ccase := { c_declared : list Z; c_default : bool; c_code : Z; c_kind : nat; c_obs_code : Z }.
Definition judge_c (c : ccase) : bool :=
  match client_read (c_declared c) (c_default c) (c_code c), c_kind c with
  | Typed k, 0 => Z.eqb k (c_obs_code c)
  | DefaultTyped k _, 1 => Z.eqb k (c_obs_code c)
  | APIError k, 2 => Z.eqb k (c_obs_code c)
  | _, _ => false
  end.

(* C06: kind 0 denied (401/403), 1 rejected as bad request (4xx), 2 handler reached *)
Record acase := { a_req : requirement; a_answers : list (str * auth_answer); a_params_ok : bool; a_kind : nat; a_principal : str }.
Definition answer_of (l : list (str * auth_answer)) (sch : str) : auth_answer :=
  match assoc sch l with Some a => a | None => NotApplicable end.
Definition judge_a (c : acase) : bool :=
  match serve (answer_of (a_answers c)) (a_req c) (a_params_ok c), a_kind c with
  | Denied, 0 => true
  | BadRequest, 1 => true
  | Handler None, 2 => is_empty (a_principal c)
  | Handler (Some p), 2 =>
      (* with several schemes in one alternative the runtime visits them in map order: any of their principals *)
      existsb (fun kv => match snd kv with Principal q => str_eqb q (a_principal c) | _ => false end) (a_answers c)
  | _, _ => false
  end.

(* C03: nested array parameters *)
Record ncase := { na_param : nparam; na_raws : list str; na_has_key : bool; na_reached : bool; na_values : option (list nvalue) }.
Fixpoint nvalues_eqb (a b : list nvalue) : bool :=
  match a, b with [], [] => true | x :: r, y :: r' => nvalue_eqb x y && nvalues_eqb r r' | _, _ => false end.
Definition judge_n (c : ncase) : bool :=
  match bind_nested (na_param c) (na_raws c) (na_has_key c) with
  | NReject => negb (na_reached c)
  | NAbsent => na_reached c && match na_values c with None | Some [] => true | Some _ => false end
  | NBound vs => na_reached c && match na_values c with Some ws => nvalues_eqb vs ws | None => match vs with [] => true | _ => false end end
  end.

Inductive anycase := CB (c : bcase) | CS (c : scase) | CJ (c : jcase) | CC (c : ccase) | CA (c : acase) | CR (c : rcase) | CF (c : fcase) | CN (c : ncase).
Definition judge (c : anycase) : bool :=
  match c with CB x => judge_b x | CS x => judge_s x | CJ x => judge_j x | CC x => judge_c x | CA x => judge_a x | CR x => judge_r x | CF x => judge_f x | CN x => judge_n x end.
Fixpoint run_from (i : nat) (cs : list anycase) : list nat :=
  match cs with [] => [] | c :: r => if judge c then run_from (S i) r else i :: run_from (S i) r end.
Definition run_cases (cs : list anycase) := run_from 0 cs.

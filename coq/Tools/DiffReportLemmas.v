(* Tools/DiffReportLemmas.v — proofs about DiffTypes / DiffReport. *)
From GS Require Import Base.Str Base.Json Gen.GenDiffTables Tools.DiffTypes Tools.DiffReport.

Lemma all_codes_complete c : In c all_codes.
Proof. destruct c; vm_compute; tauto. Qed.

Lemma all_compats_complete c : In c all_compats.
Proof. destruct c; vm_compute; tauto. Qed.

Lemma code_idx_nth c : nth_error all_codes (N.to_nat (code_idx c)) = Some c.
Proof. destruct c; reflexivity. Qed.

Lemma code_idx_inj a b : code_idx a = code_idx b -> a = b.
Proof.
  intro H. pose proof (code_idx_nth a) as Ha. pose proof (code_idx_nth b) as Hb.
  rewrite H in Ha. congruence.
Qed.

Lemma compat_idx_inj a b : compat_idx a = compat_idx b -> a = b.
Proof. destruct a, b; cbn; intro H; try reflexivity; discriminate. Qed.

Lemma code_eqb_eq a b : code_eqb a b = true <-> a = b.
Proof.
  unfold code_eqb. rewrite N.eqb_eq. split; [apply code_idx_inj | now intros ->].
Qed.

Lemma compat_eqb_eq a b : compat_eqb a b = true <-> a = b.
Proof.
  unfold compat_eqb. rewrite N.eqb_eq. split; [apply compat_idx_inj | now intros ->].
Qed.

Lemma bool_eqb_eq a b : Bool.eqb a b = true <-> a = b.
Proof. destruct a, b; cbn; split; congruence. Qed.

Fixpoint node_eqb_eq (a : node) : forall b, node_eqb a b = true <-> a = b.
Proof.
  destruct a as [f t ar c]; intros [f' t' ar' c']; cbn.
  rewrite !andb_true_iff, !str_eqb_eq, bool_eqb_eq.
  destruct c as [x|], c' as [y|].
  - rewrite (node_eqb_eq x y). split.
    + intros [[[-> ->] ->] ->]. reflexivity.
    + intro H. injection H as -> -> -> ->. tauto.
  - split; [intros [_ H]; discriminate | intro H; discriminate].
  - split; [intros [_ H]; discriminate | intro H; discriminate].
  - split.
    + intros [[[-> ->] ->] _]. reflexivity.
    + intro H. injection H as -> -> ->. tauto.
Qed.

Lemma onode_eqb_eq a b : onode_eqb a b = true <-> a = b.
Proof.
  destruct a as [x|], b as [y|]; cbn; try (split; congruence).
  rewrite node_eqb_eq. split; congruence.
Qed.

Lemma loc_eqb_eq a b : loc_eqb a b = true <-> a = b.
Proof.
  destruct a as [u m r n], b as [u' m' r' n']; unfold loc_eqb; cbn.
  rewrite !andb_true_iff, !str_eqb_eq, Z.eqb_eq, onode_eqb_eq. split.
  - intros [[[-> ->] ->] ->]. reflexivity.
  - intro H. injection H as -> -> -> ->. tauto.
Qed.

Lemma matches_eq a b : matches a b = true <-> a = b.
Proof.
  destruct a as [l c k i], b as [l' c' k' i']; unfold matches; cbn.
  rewrite !andb_true_iff, code_eqb_eq, compat_eqb_eq, str_eqb_eq, loc_eqb_eq. split.
  - intros [[[-> ->] ->] ->]. reflexivity.
  - intro H. injection H as -> -> -> ->. tauto.
Qed.

Lemma contains_In l d : contains l d = true <-> In d l.
Proof.
  unfold contains. rewrite existsb_exists. split.
  - intros [e [He M]]. apply matches_eq in M. now subst.
  - intro H. exists d. split; [assumption | now apply matches_eq].
Qed.

Lemma contains_false l d : contains l d = false <-> ~ In d l.
Proof.
  split; intro H.
  - intro I. apply contains_In in I. congruence.
  - destruct (contains l d) eqn:E; [|reflexivity]. apply contains_In in E. contradiction.
Qed.

(* a difference as produced by the analyser: its compatibility is the policy's *)
Definition canonical (d : sdiff) : Prop := add_diff d = d.

Lemma add_diff_idem d : add_diff (add_diff d) = add_diff d.
Proof. reflexivity. Qed.

Lemma mk_diff_canonical l c i : canonical (mk_diff l c i).
Proof. reflexivity. Qed.

Lemma filter_ignores_canonical ds ig :
  Forall canonical ds ->
  filter_ignores ds ig = filter (fun d => negb (contains ig d)) ds.
Proof.
  unfold filter_ignores. induction 1 as [|d ds Hd _ IH]; cbn; [reflexivity|].
  destruct (contains ig d); cbn; [exact IH|]. now rewrite Hd, IH.
Qed.

Lemma filter_ignores_In ds ig d :
  Forall canonical ds ->
  In d (filter_ignores ds ig) <-> In d ds /\ ~ In d ig.
Proof.
  intro H. rewrite (filter_ignores_canonical _ _ H), filter_In, negb_true_iff, contains_false. tauto.
Qed.


Lemma filter_none {A} (f : A -> bool) l : (forall x, In x l -> f x = false) -> filter f l = [].
Proof.
  induction l as [|x l IH]; cbn; intro H; [reflexivity|].
  rewrite (H x (or_introl eq_refl)). apply IH. intros y Hy. apply H. now right.
Qed.


Lemma filter_ignores_all ds : filter_ignores ds ds = [].
Proof.
  unfold filter_ignores. rewrite filter_none; [reflexivity|].
  intros d Hd. apply negb_false_iff. now apply contains_In.
Qed.

Lemma filter_ignores_nil ds : Forall canonical ds -> filter_ignores ds [] = ds.
Proof.
  intro H. rewrite (filter_ignores_canonical _ _ H). clear H.
  induction ds as [|d ds IH]; cbn [filter]; [reflexivity|].
  change (contains [] d) with false. cbn [negb]. now rewrite IH.
Qed.

(* order is preserved: the result is a subsequence of the input *)
Inductive subseq {A} : list A -> list A -> Prop :=
| sub_nil : subseq [] []
| sub_skip x l l' : subseq l l' -> subseq l (x :: l')
| sub_keep x l l' : subseq l l' -> subseq (x :: l) (x :: l').

Lemma filter_subseq {A} (f : A -> bool) l : subseq (filter f l) l.
Proof. induction l as [|x l IH]; cbn; [constructor|]. destruct (f x); now constructor. Qed.

(* breaking count positive iff some entry is Breaking *)
Lemma breaking_count_pos ds :
  Nat.ltb 0 (breaking_count ds) = true <-> exists d, In d ds /\ d_compat d = Breaking.
Proof.
  unfold breaking_count. rewrite Nat.ltb_lt. split.
  - intro H. destruct (filter _ ds) as [|d r] eqn:E; [cbn in H; lia|].
    assert (I : In d (filter (fun d => compat_eqb (d_compat d) Breaking) ds)) by (rewrite E; now left).
    apply filter_In in I as [I1 I2]. exists d. split; [assumption | now apply compat_eqb_eq].
  - intros [d [I1 I2]].
    assert (I : In d (filter (fun d => compat_eqb (d_compat d) Breaking) ds)).
    { apply filter_In. split; [assumption | now apply compat_eqb_eq]. }
    destruct (filter _ ds); [contradiction | cbn; lia].
Qed.

(* --- string tables --- *)
Definition enc_code (c : code) : str := match code_str c with Some x => x | None => [] end.
Definition enc_compat (c : compat) : str := match compat_str c with Some x => x | None => [] end.

Lemma code_roundtrip_all :
  forallb (fun c => match decode_code (enc_code c) with Some c' => code_eqb c c' | None => false end) all_codes = true.
Proof. vm_compute. reflexivity. Qed.

Lemma code_roundtrip c : decode_code (enc_code c) = Some c.
Proof.
  pose proof (proj1 (forallb_forall _ _) code_roundtrip_all c (all_codes_complete c)) as H.
  cbv beta in H. destruct (decode_code (enc_code c)) as [c'|]; [|discriminate].
  apply code_eqb_eq in H. now subst.
Qed.

Lemma code_str_total_all : forallb (fun c => match code_str c with Some x => negb (is_empty x) | None => false end) all_codes = true.
Proof. vm_compute. reflexivity. Qed.

Lemma compat_roundtrip c : decode_compat (enc_compat c) = Some c.
Proof. destruct c; vm_compute; reflexivity. Qed.

(* --- JSON form round trip --- *)
Fixpoint node_depth (n : node) : nat :=
  match n with Node _ _ _ None => 1 | Node _ _ _ (Some c) => S (node_depth c) end.

Lemma node_json_obj n : exists l, node_json n = JObj l.
Proof. destruct n as [f t ar c]. cbn. eexists. reflexivity. Qed.

Fixpoint node_roundtrip (n : node) : forall fuel, node_depth n <= fuel -> node_of_json fuel (node_json n) = Some n.
Proof.
  destruct n as [f t ar c]; intros fuel Hf.
  destruct fuel as [|fuel]; [destruct c; cbn in Hf; lia|].
  destruct c as [ch|].
  - assert (IH : node_of_json fuel (node_json ch) = Some ch) by (apply node_roundtrip; cbn in Hf; lia).
    destruct (node_json_obj ch) as [lc Hlc].
    cbn [node_json node_of_json]. rewrite Hlc in *.
    destruct f as [|f0 f], t as [|t0 t], ar; cbn; rewrite IH; reflexivity.
  - cbn [node_json node_of_json].
    destruct f as [|f0 f], t as [|t0 t], ar; cbn; reflexivity.
Qed.


Fixpoint node_depth_size (n : node) : node_depth n <= json_size (node_json n).
Proof.
  destruct n as [f t ar [ch|]].
  - pose proof (node_depth_size ch) as IH.
    cbn [node_json node_depth json_size].
    destruct (is_empty f), (is_empty t), ar; cbn; lia.
  - cbn [node_json node_depth json_size]. lia.
Qed.

Lemma opt_node_roundtrip n : opt_node_of_json (Some (node_json n)) = Some (Some n).
Proof.
  pose proof (node_roundtrip n _ (node_depth_size n)) as Hn.
  destruct (node_json_obj n) as [ln Hln]. unfold opt_node_of_json.
  destruct (node_json n) eqn:E; try discriminate. now rewrite Hn.
Qed.

Lemma loc_roundtrip l : loc_of_json (loc_json l) = Some l.
Proof.
  destruct l as [u m r n]. unfold loc_json, loc_of_json. cbn [l_url l_method l_response l_node].
  destruct n as [n|].
  - pose proof (opt_node_roundtrip n) as Hn.
    destruct m as [|m0 m]; destruct r as [|r|r]; cbn -[opt_node_of_json]; rewrite Hn; reflexivity.
  - destruct m as [|m0 m]; destruct r as [|r|r]; cbn; reflexivity.
Qed.

Lemma diff_roundtrip d : diff_of_json (diff_json d) = Some d.
Proof.
  destruct d as [l c k i]. unfold diff_json, diff_of_json. cbn [d_loc d_code d_compat d_info].
  pose proof (loc_roundtrip l) as Hl. pose proof (code_roundtrip c) as Hc. pose proof (compat_roundtrip k) as Hk.
  unfold enc_code in Hc. unfold enc_compat in Hk. unfold code_json, compat_json.
  destruct i as [|i0 i]; cbn -[loc_of_json loc_json decode_code decode_compat code_str compat_str];
    rewrite Hl, Hc, Hk; reflexivity.
Qed.

(* --- reports describe the same set --- *)
From Coq Require Import Permutation.

Lemma insert_str_perm x l : Permutation (insert_str x l) (x :: l).
Proof.
  induction l as [|y l IH]; cbn; [reflexivity|].
  destruct (str_leb x y); [reflexivity|].
  rewrite IH. apply perm_swap.
Qed.

Lemma sort_str_perm l : Permutation (sort_str l) l.
Proof.
  induction l as [|x l IH]; cbn; [reflexivity|].
  rewrite insert_str_perm. now constructor.
Qed.

Definition is_compat (c : compat) (d : sdiff) : bool := compat_eqb (d_compat d) c.

Lemma three_way_partition (ds : list sdiff) :
  Permutation ds (filter (is_compat NonBreaking) ds ++ filter (is_compat Warning) ds ++ filter (is_compat Breaking) ds).
Proof.
  unfold is_compat. induction ds as [|d ds IH]; cbn [filter]; [reflexivity|].
  destruct (d_compat d); cbn.
  - (* Breaking *) etransitivity; [apply perm_skip, IH|]. rewrite !app_assoc. apply Permutation_middle.
  - (* NonBreaking *) now constructor.
  - (* Warning *) etransitivity; [apply perm_skip, IH|]. apply Permutation_middle.
Qed.

Lemma filter_len_le {A} (f : A -> bool) l : length (filter f l) <= length l.
Proof. induction l as [|x l IH]; cbn; [lia|]. destruct (f x); cbn; lia. Qed.

Lemma filter_length_all {A} (f : A -> bool) l : length (filter f l) = length l -> filter f l = l.
Proof.
  induction l as [|x l IH]; cbn; [reflexivity|].
  destruct (f x); cbn; intro H.
  - f_equal. apply IH. lia.
  - pose proof (filter_len_le f l). lia.
Qed.

Lemma filter_length_zero {A} (f : A -> bool) l : length (filter f l) = 0 -> filter f l = [].
Proof. destruct (filter f l); [reflexivity | discriminate]. Qed.

Lemma all_breaking_no_others ds c :
  filter (is_compat Breaking) ds = ds -> c <> Breaking -> filter (is_compat c) ds = [].
Proof.
  intros H Hc. apply filter_none. intros d Hd.
  rewrite <- H in Hd. apply filter_In in Hd as [_ Hd]. unfold is_compat in *.
  apply compat_eqb_eq in Hd. rewrite Hd. destruct c; try reflexivity. contradiction.
Qed.

Lemma report_changes_perm ds c :
  Permutation (report_changes ds c) (map diff_string (filter (is_compat c) ds)).
Proof. unfold report_changes. apply sort_str_perm. Qed.

Lemma report_compat_lines_perm ds :
  Permutation (report_compat_lines ds) (map diff_string (filter (is_compat Breaking) ds)).
Proof.
  unfold report_compat_lines, breaking_count. fold (is_compat Breaking).
  destruct (Nat.ltb_spec 0 (length (filter (is_compat Breaking) ds))) as [H|H].
  - apply report_changes_perm.
  - rewrite filter_length_zero by lia. reflexivity.
Qed.

Lemma report_text_lines_perm ds :
  Permutation (report_text_lines ds) (map diff_string ds).
Proof.
  unfold report_text_lines. destruct ds as [|d0 ds0]; [reflexivity|].
  set (ds := d0 :: ds0).
  transitivity (map diff_string (filter (is_compat NonBreaking) ds ++ filter (is_compat Warning) ds ++ filter (is_compat Breaking) ds));
    [| apply Permutation_map; symmetry; apply three_way_partition].
  rewrite !map_app.
  unfold breaking_count, warning_count. fold (is_compat Breaking) (is_compat Warning).
  destruct (Nat.eqb_spec (length ds) (length (filter (is_compat Breaking) ds))) as [E|E]; cbn [negb].
  - symmetry in E. apply filter_length_all in E.
    rewrite (all_breaking_no_others ds NonBreaking E), (all_breaking_no_others ds Warning E) by discriminate.
    cbn [map app]. apply report_compat_lines_perm.
  - rewrite <- app_assoc. apply Permutation_app; [apply report_changes_perm|].
    apply Permutation_app; [|apply report_compat_lines_perm].
    destruct (Nat.ltb_spec 0 (length (filter (is_compat Warning) ds))) as [H|H].
    + apply report_changes_perm.
    + rewrite filter_length_zero by lia. reflexivity.
Qed.

#!/bin/bash
# usage: tools/regress_mutants.sh [pattern]   — every seeded change against the quick check of its property; prints one line each
cd /verif
for d in $(ls -d seeded/${1:-C}* | sort); do
  m=$(basename $d); id=${m%-*}
  tools/with_patch.sh /verif/$d/patch.diff ./check $id --tier quick > /tmp/regress_$m.txt 2>&1; rc=$?
  echo "$m exit=$rc $(grep -c '^VIOLATION' /tmp/regress_$m.txt) violations $(grep -c 'no-failing-input-found' /tmp/regress_$m.txt) without-input"
done
git -C /repo status --short

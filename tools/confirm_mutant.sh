#!/bin/bash
# usage: tools/confirm_mutant.sh <ID> <letter> <worktree>   — confirms a sub-agent's change in its scratch worktree
# (demo passes on the pristine tree, patch applies, tree builds, tests of the touched packages pass, demo fails with the
# patch), stores it as seeded/<ID>-<letter>/ and leaves the worktree clean. Prints CONFIRMED or the step that failed.
export GOFLAGS=-mod=mod GOPROXY=off GOSUMDB=off GOTOOLCHAIN=local
id=$1; letter=$2; wt=$3; out=$wt/out/a
[ -f $out/patch.diff ] || { echo "$id: no patch"; exit 2; }
cd $wt || exit 2
git checkout -q -- . ; git status --short | grep -v '^??' && { echo "$id: worktree dirty"; exit 2; }
bash $out/demo/run.sh $wt > /tmp/confirm_$id.pristine.txt 2>&1; r0=$?
[ $r0 -eq 0 ] || { echo "$id: demo fails on the pristine tree (exit $r0)"; exit 1; }
git apply $out/patch.diff || { echo "$id: patch does not apply"; exit 1; }
go build ./... > /tmp/confirm_$id.build.txt 2>&1 || { echo "$id: does not build"; git checkout -q -- .; exit 1; }
pkgs=$(git diff --name-only | grep -v '^go.sum' | xargs -n1 dirname | sort -u | while read d; do
  while [ "$d" != "." ] && ! ls $d/*.go >/dev/null 2>&1; do d=$(dirname $d); done; echo ./$d; done | sort -u)
go test -count=1 $pkgs > /tmp/confirm_$id.test.txt 2>&1; rt=$?
if [ $rt -ne 0 ]; then
  # only the two network-dependent subtests may fail
  bad=$(grep -- '^--- FAIL\|^    --- FAIL\|^        --- FAIL' /tmp/confirm_$id.test.txt | grep -v 'Test_GenerateClient\b\|Test_GenerateClient/should_generate_client\b\|from_remote_spec\|should_dump_template_data' | head -3)
  if [ -n "$bad" ] || ! grep -q 'from_remote_spec\|should_dump_template_data' /tmp/confirm_$id.test.txt; then
    echo "$id: tests fail: $bad $(grep -m2 '^FAIL\|panic' /tmp/confirm_$id.test.txt)"; git checkout -q -- .; exit 1; fi
fi
bash $out/demo/run.sh $wt > /tmp/confirm_$id.mutated.txt 2>&1; r1=$?
git checkout -q -- .
[ $r1 -ne 0 ] || { echo "$id: demo still passes with the patch"; exit 1; }
dst=/verif/seeded/$id-$letter; rm -rf $dst; mkdir -p $dst
cp $out/patch.diff $dst/; cp -r $out/demo $dst/demo
python3 - "$out/meta.json" "$dst/meta.json" "$pkgs" "$r0" "$r1" <<'PY'
import json,sys
m=json.load(open(sys.argv[1]))
m["confirmed"]={"demo_exit_pristine":int(sys.argv[4]),"demo_exit_with_patch":int(sys.argv[5]),"go_build":"ok","go_test_packages":sys.argv[3].split(),"by":"tools/confirm_mutant.sh in the scratch worktree"}
json.dump(m,open(sys.argv[2],"w"),indent=1)
PY
echo "$id: CONFIRMED (demo $r0 -> $r1; tests of: $(echo $pkgs))"

#!/bin/bash
# usage: tools/run_all.sh quick|thorough   — every check once on the current /repo tree; one summary line per property
tier=${1:-quick}
cd "$(dirname "$0")/.."
[ -x .work/bin/gstrans ] || ./setup.sh > /dev/null 2>&1
for p in C01 C02 C03 C04 C05 C06 C07 C08 C09 C10 C11 C12 C13 C14 C15 C16 C17 C18 C19; do
  s=$(date +%s); ./check $p --tier $tier > .work/all_$p.txt 2>&1; rc=$?; e=$(date +%s)
  echo "$p tier=$tier exit=$rc $((e-s))s violations=$(grep -c '^VIOLATION' .work/all_$p.txt) known=$(grep -c '^KNOWN-FINDING' .work/all_$p.txt) $(grep -m1 'CHECK-ERROR' .work/all_$p.txt | cut -c1-200)"
  grep '^VIOLATION' .work/all_$p.txt | head -5
done

#!/bin/bash
# usage: with_patch.sh <patch.diff> <command...>   — applies the patch to /repo, runs the command, always reverts.
set -u
patch="$1"; shift
git -C /repo apply "$patch" || { echo "with_patch: cannot apply $patch"; exit 3; }
"$@"; rc=$?
git -C /repo checkout -- . 
exit $rc

#!/bin/bash
# usage: with_patch.sh <patch.diff> <command...>   — applies the patch to /repo, runs the command, always reverts.
# The evidence files and the regenerated coq/Gen/*.v are saved and restored around the run: what is committed must come
# from the unchanged tree.
set -u
patch="$1"; shift
save=$(mktemp -d)
mkdir -p "$save/evidence" "$save/gen"
cp -a /verif/evidence/. "$save/evidence"/ 2>/dev/null
cp -a /verif/coq/Gen/*.v "$save/gen"/ 2>/dev/null
git -C /repo apply "$patch" || { echo "with_patch: cannot apply $patch"; rm -rf "$save"; exit 3; }
"$@"; rc=$?
git -C /repo checkout -- .
cp -a "$save/evidence"/. /verif/evidence/ 2>/dev/null
for f in "$save"/gen/*.v; do cmp -s "$f" /verif/coq/Gen/$(basename "$f") || cp "$f" /verif/coq/Gen/; done
rm -rf "$save"
exit $rc

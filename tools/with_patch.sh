#!/bin/bash
# usage: with_patch.sh <patch.diff> <command...>   — applies the patch to /repo, runs the command, always reverts.
# The evidence files are saved and restored around the run: committed evidence must come from the unchanged tree.
set -u
patch="$1"; shift
save=$(mktemp -d)
cp -a /verif/evidence/. "$save"/ 2>/dev/null
git -C /repo apply "$patch" || { echo "with_patch: cannot apply $patch"; rm -rf "$save"; exit 3; }
"$@"; rc=$?
git -C /repo checkout -- .
cp -a "$save"/. /verif/evidence/ 2>/dev/null
rm -rf "$save"
exit $rc

#!/usr/bin/env python3
"""Regenerates /verif/MANIFEST.json from the table below (claimed checks) and properties.jsonl (the rest = not_applicable)."""
import json, os
V = os.path.dirname(os.path.dirname(os.path.abspath(__file__)))
props = [json.loads(l) for l in open(os.path.join(V, "properties.jsonl"))]
NOTE = ("Trusted: Coq 8.16.1 kernel + vm_compute; no axioms (Print Assumptions: closed under the global context for every theorem in the property file); "
        "translator gstrans; the Go harness, its generators and canonicalisers; ./check. ")
C = {
 "C01": ("proof", "5.1", "rocq-names",
   "PARTIAL. Kernel-checked for every name and every unicode table satisfying the stated laws (ASCII agreement, letters in L/M/N/Pc, case closure; validated on every rune the cases use): a name without combining marks / No / Nl / Pc characters is mangled by pascalize into identifier characters only (C01_pascalize_ident_chars); if it contains a letter and its first letter, when it starts with one, has an upper case, the result is an exported Go identifier, hence never a keyword (C01_pascalize_exported, C01_exported_not_keyword); variable names are never keywords (C01_var_not_keyword); generated file names never end in a suffix go build interprets (C01_file_name_built); the client's private timeout field is fresh (C01_timeout_fresh). The excluded names are refuted on the model (C01_refuted_*) and fail on the code (known findings). NOT modelled: Go typing of the emitted text (pointer/alias agreement between declaration and use, imports, template-local identifiers); it is exercised by go build of generated trees: a fixed API with 25 name slots x hostile names x flatten/expand/skip-tag-packages/strict-responders/struct-tags, servercheck's operation shapes, every tree any other check generates. Tie: hand model of swag's splitter / ToGoName / ToVarName / ToFileName, pascalize, MangleVarName, MangleFileName, renameTimeout vs the functions of the tree under test on >=1500 names per run.",
   "proof (Coq 8.16) of name mangling + function-level correspondence + generate-and-build oracle",
   "Modelled: go-openapi/swag name functions (dependency, hand model validated each run), generator/template_repo.go pascalize/prefixForName, language.go MangleVarName/MangleFileName, operation.go renameTimeout. Exercised only: everything the templates emit (go build is the oracle)."),
 "C08": ("proof", "5.8", "rocq-names",
   "Kernel-checked on the model of the generator's naming plan (gatherOperations as exported by a verif hook + the collision checks of newAppGenerator/makeCodegenApp/buildProperties): whenever the plan succeeds every operation of the spec is held under a name of its own, names and their Go forms are pairwise distinct, operations with different routes get different Go names (C08_operations); definitions get pairwise distinct Go types and (case-insensitive) source files (C08_definitions), properties distinct Go fields (C08_properties); a model file is always part of a normal build (C08_model_file_built). Tie: gatherOperations on random operation sets incl. key collisions, generation verdicts of 16 collision experiments vs plan_ops/plan_defs/plan_props. Property oracle on generated trees: handler registrations of the API builder, ClientService methods, model types of the models package as go list builds it; routing of every (method, path) to its own handler is exercised on the compiled generated server by servercheck (root path, base path variants). The unchanged code merged colliding definitions / id-less operations silently: fixed (c326970).",
   "proof (Coq 8.16) of the naming plan + collision experiments + representation and routing oracles on generated trees",
   "Modelled: gatherOperations, checkOperationsKept, checkDistinctModelNames, checkDistinctOperationNames, property field check. Exercised only: tag -> package grouping, router (go-openapi/runtime), file writing."),
 "C02": ("proof", "5.2", "rocq-models",
   "Kernel-checked on the fragment of Sem/Schema.v (strings, integers, booleans, arrays, maps, objects with required/optional properties at any depth; all documents with distinct keys): decoding into the generated Go type and calling Validate succeeds exactly when the reference semantics accepts the document in which optional zero-valued non-pointer scalars and optional nulls are treated as absent (C02_agrees), and that erasure removes nothing else (C02_erase_only_documented). Both sides of the theorem are tied to the code on every run: the model of the generated code against compiled generated models, the reference semantics against go-openapi/validate, on generated definitions x documents deviating from validity in one place. The harness additionally compares, outside the fragment (formats, patterns, allOf, property counts, unsigned formats), the compiled models with the reference validator directly.",
   "proof on fragment (Coq 8.16) + compiled-model differential oracle against go-openapi/validate",
   "Modelled: nullable rules of types.go, validation templates, encoding/json decoding for the fragment. Oracles: go-openapi/validate, Go compiler, encoding/json."),
 "C05": ("proof", "5.5", "rocq-models",
   "Kernel-checked on the same fragment for rt = json.Marshal(json.Unmarshal(.)) of the generated type: a declared property present with a non-null value is preserved at its path except an optional zero-valued non-pointer scalar or optional empty map; required properties are never omitted; nothing undeclared is added; scalars, array elements and map entries are carried over one by one (PARTIAL: per nesting level; allOf, additionalProperties next to properties and polymorphism are exercised only). rt is compared with the compiled generated models on every run; the oracle checks loss, additions, idempotence and decodability of valid documents, including allOf members and discriminated subtypes with x-class reached through the base type.",
   "proof on fragment (Coq 8.16) + compiled-model round-trip oracle",
   "Modelled: struct tags / omitempty rules for the fragment. Exercised only: custom (un)marshallers of allOf, additionalProperties, polymorphic types."),
 "C03": ("proof", "5.3", "rocq-server",
   "Kernel-checked for every scalar non-body parameter (string with length bounds/enum, integer of every format incl. exclusive bounds and unsigned ranges, boolean; path/query/header/formData; required/optional/allowEmptyValue), every list of raw occurrences and hasKey flag: the generated binder's ladder accepts exactly the requests the parameter semantics accepts (C03_bind_iff), hands the handler the typed validated value (C03_values) and treats a value as absent only when it is empty and may be (C03_absent). PARTIAL: arrays are covered by the split/join theorems and the body by C02's theorem; routing, multipart, strfmt formats are exercised only. Tie: model bind/split_by vs the compiled generated server (one deviation per parameter) every run; a reference binder in the harness is the property-level oracle over the whole request.",
   "proof (Coq 8.16) of the binding ladder + compiled generated server correspondence and reference-binder oracle",
   "Modelled: server/parameter.gotmpl ladder for scalar parameters, swag.SplitByFormat. Exercised only: router, consumers, multipart, strfmt. Dependencies: go-openapi/runtime, validate, swag, Go compiler."),
 "C04": ("proof", "5.4", "rocq-server",
   "Kernel-checked for all item lists and response codes: join-then-split by any single-character collection format returns exactly the items when each is representable (C04_split_join); the client's response dispatch yields the typed result for exactly the declared codes, the default response or a generic API error otherwise, always with the code the handler used (C04_response_code_kept, C04_typed_iff_declared, C04_undeclared_is_api_error). PARTIAL: payload and header (de)serialisation, media types and transport are exercised by driving the compiled generated client against the compiled generated server in-process (valid values x every declared/default/undeclared response), not modelled.",
   "proof (Coq 8.16) of split/join and response dispatch + generated client x generated server in-process oracle",
   "Modelled: swag.JoinByFormat/SplitByFormat, client/response.gotmpl dispatch. Exercised only: client/parameter.gotmpl writers, runtime client, codecs."),
 "C06": ("proof", "5.6", "rocq-server",
   "Kernel-checked for every requirement without the anonymous alternative, every assignment of authenticator answers and every binding outcome: the handler runs exactly when the effective requirement is empty or one alternative has all its schemes authenticated, and parameters bind (C06_exact); an unsatisfied request is denied before binding (C06_denied_first); the principal comes from a satisfied alternative (C06_principal); the operation's list replaces the global one (C06_effective). Tie: model serve/authenticate vs the compiled generated server over all 36 credential combinations per operation and security shape. Exercised only: scheme wiring in builder.gotmpl, credential extraction, scopes, status codes.",
   "proof (Coq 8.16) of the security gate + compiled generated server credential-matrix oracle",
   "Modelled: server/operation.gotmpl gate, runtime RouteAuthenticators.Authenticate. Exercised only: AuthenticatorsFor wiring, go-openapi/runtime/security."),
 "C07": ("proof", "5.7", "rocq-order",
   "Kernel-checked for all lists and permutations: collect-then-sort, first-match over a table whose matching entries agree, map building from distinct keys and set membership do not depend on iteration order; every map-range site of generator/, diff and codescan (typed inventory regenerated with go/packages on every run) is in a proven pattern or in a reviewed table (C07_sites), and the media-type table (regenerated) is unambiguous on a catalogue of media types. PARTIAL: pattern recognition is syntactic and trusted; byte-identity of whole outputs and data-race freedom are exercised: every command repeated in fresh processes on a wide input, K concurrent library generations under the race detector.",
   "proof of loop patterns (Coq 8.16) + regenerated typed site inventory + N-run / -race oracle",
   "Modelled: map loops as folds over permutations. Trusted: the syntactic classifier. Exercised only: Go memory model / race freedom, whole-output byte identity."),
 "C09": ("proof", "5.9", "rocq-text",
   "Kernel-checked for all strings: padComment keeps text inside // comments, blockComment output never contains '*/', a backtick-escaped text evaluates (as the Go compiler would) to the text itself; and every template site printing a free-text field (inventory regenerated from the templates on every run) pairs its lexical context with a safe helper (C09_sites, finite, vm_compute). Helpers are tied to the code by a correspondence run through the generator's own FuncMap; the property itself is tested by rendering hostile text at every free-text position and comparing go/parser ASTs with a neutral rendering.",
   "proof (Coq 8.16) + regenerated site inventory + hostile-vs-neutral AST oracle",
   "Modelled: padComment/blockComment/escapeBackticks and the Go comment/raw-string lexical rules. Trusted: the translator's context detection; humanize/pascalize emit identifier-like text; encoding/json escapes control characters; go/parser as oracle."),
 "C10": ("proof", "5.10", "rocq-text",
   "Kernel-checked for all byte strings without CR: the literal written by generateReadableSpec evaluates to exactly the marshalled document (partial: the flattened document is validated per run, analysis.Flatten is a dependency). Oracle: the embedded documents of really generated servers are evaluated (go/parser + constant folding) and compared JSON-equal with the input / equal after $ref expansion, over hostile string contents, JSON and YAML input and the three flatten modes.",
   "proof (Coq 8.16) + translation validation of embedded documents",
   "Modelled: generateReadableSpec (via verif hook) and Go raw-string concatenation. Dependencies: analysis.Flatten, spec.ExpandSpec, encoding/json."),
 "C11": ("proof", "5.11", "rocq-fs",
   "Kernel-checked over all histories and all directory contents: files a run does not target are untouched, an existing skip_exists file is never rewritten, every other target equals a fresh generation into an empty directory (given distinct target paths), a missing skip_exists file is created; the default layout has exactly one skip_exists template governed by --regenerate-configureapi (table regenerated from DefaultSectionOpts). Tie: real histories of swagger generate runs and user edits, every step compared with the model's prediction and with a fresh generation.",
   "proof (Coq 8.16) by induction over histories + real-history correspondence",
   "Modelled: GenOpts.write/skip_exists as an abstract path->content machine. Exercised, not modelled: OS file semantics, template rendering."),
 "C16": ("proof", "5.16", "rocq-scan",
   "Kernel-checked on the fragment of Scan/GoTypes.v (strings, booleans, integers of every width, pointers, slices, arrays, string-keyed maps, nested structs, json names and omitempty; any depth): every value of a model type, with nil only in pointer or omitempty struct fields, is encoded by encoding/json as a document the scanned definition accepts (C16_encoding_accepted); every document the definition accepts decodes into the type (C16_accepted_decodes); the JSON keys of the encoding are property names of the definition (C16_keys); the nil hypothesis is shown necessary (C16_refuted_nil_slice = known finding). Tie, every run: ~180 generated model types are compiled; codescan.Run scans them; a reflection driver marshals zero/full/max/min/empty/random values and decodes 28 mutated documents per type; model scan/encode/sval/decodes vs the scanned definition, the real encodings, the reference verdicts and the real decoding verdicts. Outside the fragment (floats, time.Time, named types, ,string, embedded structs, interface{}, RawMessage, []byte) the property oracle runs on the implementation only.",
   "proof on fragment (Coq 8.16) + compiled-type correspondence + encode/validate/decode oracle",
   "Modelled: codescan/schema.go buildFromType/buildFromStruct/parseJSONTag and swaggerSchemaForType on the fragment, encoding/json Marshal and Unmarshal acceptance. Dependencies: go/packages loading, encoding/json, Go compiler."),
 "C18": ("proof", "5.18", "rocq-scan",
   "PARTIAL. Kernel-checked for every set of property-level validations with integer values (Required, Read Only, Maximum/Minimum with either exclusivity, Multiple Of, Max/Min Length, Pattern not starting with a blank, Max/Min Items, Unique): the lines the model template writes above a struct field are read back by the scanner's recognisers as exactly the same validations, and distinct validation sets give distinct comments (C18_vocabulary_roundtrip, C18_vocabulary_injective); the excluded pattern case is refuted on the model and is a known finding. Tie, every run: the vocabulary lines of the generated field comments vs emit, the scanned validations vs parse of those lines (~100 catalogue properties). The property's own observable runs on the implementation: one document of ~140 catalogued properties (every bound/exclusivity/format combination, enums with escapes, items, maps, aliases, nested objects) plus random definitions -> swagger generate model -> codescan.Run -> keyword-by-keyword comparison of every schema (numbers numerically, required as a set, references by target).",
   "proof of the doc-comment vocabulary round trip (Coq 8.16) + template/scanner correspondence + whole-document round-trip oracle",
   "Modelled: generator/templates/validation/structfield.gotmpl, codescan/regexprs.go + set* parsers for the same keywords. Exercised only: enums, formats, types, $ref structure, alias/items/map-value constraints, allOf/discriminator annotations."),
 "C19": ("proof", "5.19", "rocq-yaml",
   "Kernel-checked for integers of any size: the decimal text both renderings share parses back to the same integer and is injective (no 2^53 cliff), tied to Go's rendering by a correspondence run. PARTIAL: YAML block structure and the scalar quoting rules of yaml.v3 / swag.JSONMapSlice are dependencies, exercised rather than modelled: every spec-emitting command (flatten, expand, mixin, generate spec, init spec) x {json,yaml} input x {json,yaml} output x compact/pretty on documents carrying every class of ambiguous scalar; YAML outputs reloaded with the loader go-swagger itself uses and compared as exact JSON values.",
   "proof (Coq 8.16, integer text) + exhaustive-by-class CLI differential oracle",
   "Modelled: decimal integer text (Coq stdlib Decimal). Dependencies (exercised, not modelled): gopkg.in/yaml.v2/v3, swag.JSONMapSlice, swag.YAMLDoc."),
 "C12": ("proof", "5.12", "rocq-diff",
   "Kernel-checked theorems (Props/C12.v) that every comparison function of a hand-written Gallina model of the diff analyser yields nothing on equal arguments, for all inputs (partial: the composition over the recursive schema walk is exercised, not proved). The model is tied to the code on every run by a correspondence run (model evaluated by vm_compute on generated spec pairs vs diff.Compare in a child process) and the property itself is tested on the implementation: identity, YAML re-serialisation through the command, totality incl. fatal stack overflow / hang.",
   "proof (Coq 8.16) + model/implementation correspondence",
   "Modelled rather than verified: cmd/swagger/commands/diff (hand model, tied by the correspondence run); go-openapi/spec, loads, validate are dependencies/oracles."),
 "C13": ("proof", "5.13", "rocq-diff",
   "Kernel-checked soundness of the value-level comparisons (bounds, lengths, item counts, exclusivity, enum values) and of the compatibility policy regenerated from compatibility.go, for all inputs; the analyser's gaps are stated as refuted witnesses and listed as known findings (partial: document-level composition exercised by an edit catalogue with witnesses validated by go-openapi/validate). Correspondence on the Breaking projection of the report.",
   "proof (Coq 8.16) + edit catalogue with reference-validator witnesses",
   "Modelled rather than verified: cmd/swagger/commands/diff; go-openapi/validate is the oracle for witnesses."),
 "C14": ("proof", "5.14", "rocq-diff",
   "Kernel-checked mirror theorems for every value-level comparison under argument swap, for all inputs; the whole-document statement is refuted on the faithful model (witnesses = known findings). Correspondence on the (location, code) projection; property oracle: mirrored multisets of diff(A,B) / diff(B,A) on the implementation.",
   "proof (Coq 8.16) + model/implementation correspondence",
   "Modelled rather than verified: cmd/swagger/commands/diff."),
 "C15": ("proof", "5.15", "rocq-diff",
   "Kernel-checked: change-code and compatibility JSON identifiers round-trip (tables regenerated from difftypes.go every run), every SpecDifference survives the JSON report, Matches is equality, FilterIgnores removes exactly the ignored entries, exit status (text, -b) is non-zero iff a non-ignored Breaking entry exists, the text / breaking-only / JSON reports list the same entries. JSON-mode exit status is refuted (known finding). Correspondence: DiffCommand.Execute outputs and exit flags vs the model on generated pairs x ignore subsets.",
   "proof (Coq 8.16) + translated tables + CLI correspondence",
   "Modelled rather than verified: spec_difference.go / diff.go report and filter logic."),
}
ENG = {
 "rocq-diff": ("/verif/coq (Tools/Diff*.v) + /verif/harness/cmd/diffcheck", "Coq 8.16 model + theorems of the diff analyser; Go correspondence/oracle harness"),
 "rocq-text": ("/verif/coq (Tools/Escape*.v, Gen/GenTextSites.v) + /verif/harness/cmd/textcheck", "Coq 8.16 model of the text helpers and Go lexical contexts; site-inventory translator; rendering oracles"),
 "rocq-yaml": ("/verif/coq (Tools/Decimal.v) + /verif/harness/cmd/yamlcheck", "Coq 8.16 integer-text theorems; CLI differential harness over scalar classes"),
 "rocq-order": ("/verif/coq (Tools/Order*.v, Gen/GenRangeSites.v, Gen/GenMediaTable.v) + /verif/harness/cmd/{rangesites,detcheck}", "Coq 8.16 permutation-invariance lemmas; go/types site inventory; N-run and -race harness"),
 "rocq-models": ("/verif/coq (Sem/Schema*.v) + /verif/harness/cmd/modelcheck", "Coq 8.16 semantics of the schema fragment and of generated models; compiled-model harness"),
 "rocq-server": ("/verif/coq (Tools/GenServer*.v) + /verif/harness/cmd/servercheck", "Coq 8.16 model of parameter binding, collection formats, response dispatch and the security gate; generated server+client compiled and driven in-process"),
 "rocq-names": ("/verif/coq (Tools/Names*.v) + /verif/harness/cmd/{namecheck,servercheck}", "Coq 8.16 model of name mangling and the naming plan; name/plan correspondence; generate-and-build harness over name slots and collisions"),
 "rocq-scan": ("/verif/coq (Scan/*.v) + /verif/harness/cmd/scancheck", "Coq 8.16 model of Go model types, encoding/json and codescan; generated Go packages scanned by codescan.Run and exercised by a compiled reflection driver"),
 "rocq-fs": ("/verif/coq (Tools/Regen*.v) + /verif/harness/cmd/regencheck", "Coq 8.16 file-system history machine; real-history harness"),
}
extra = os.path.join(V, "tools", "manifest_extra.json")
if os.path.exists(extra):
    e = json.load(open(extra))
    for k, v in e.get("checks", {}).items():
        C[k] = tuple(v)
    for k, v in e.get("engines", {}).items():
        ENG[k] = tuple(v)
checks, na = [], []
for p in props:
    i = p["id"]
    if i in C:
        cat, dref, eng, text, tech, modelled = C[i]
        checks.append({"property_id": i, "quick_cmd": f"./check {i} --tier quick", "thorough_cmd": f"./check {i} --tier thorough",
                       "evidence_file": f"/verif/evidence/{i}.json", "replay_cmd_template": f"./check {i} --replay {{path}}", "engine": eng,
                       "level_claimed": {"category": cat, "text": text, "design_ref": "DESIGN.md " + dref},
                       "level_note": NOTE + modelled, "technique": tech})
    else:
        na.append({"property_id": i, "reason": "check not built yet in this build session (work in progress; see DESIGN.md section 9 for the build order)"})
engines = []
for name, (path, kind) in ENG.items():
    engines.append({"name": name, "path": path, "serves_properties": sorted(k for k, v in C.items() if v[2] == name), "kind_free_text": kind})
m = {"version": 1, "setup_cmd": "./setup.sh",
     "hooks": {"guard": "verif", "enable": "go build -tags verif (the harness builds /repo packages through a replace directive)",
               "baseline_off_cmd": "cd /repo && GOFLAGS=-mod=mod GOPROXY=off GOSUMDB=off GOTOOLCHAIN=local go test -vet=off -count=1 -timeout 25m ./...",
               "source_commits": ["8928e7a", "8ff821a", "56364e0"], "add_only": True},
     "engines": engines, "checks": checks, "not_applicable": na,
     "notes": "exit codes of ./check: 0 held, 1 VIOLATION, 2 CHECK-ERROR (machinery fault). Known findings: KNOWN_FINDINGS.jsonl. Seeded changes used to test the checks: seeded/."}
json.dump(m, open(os.path.join(V, "MANIFEST.json"), "w"), indent=1)
print("claimed:", [c["property_id"] for c in checks])

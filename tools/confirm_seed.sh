#!/bin/bash
# confirm_seed.sh <ID> <variant> <test-packages...>
# Confirms a seeded change in its scratch worktree /tmp/mut/<ID>: demo passes pristine, patch applies, builds,
# existing tests of the given packages pass, demo fails with the patch. On success stores it under /verif/seeded/<ID>-<variant>/.
set -u
export GOFLAGS=-mod=mod GOPROXY=off GOSUMDB=off GOTOOLCHAIN=local
id=$1; v=$2; shift 2
wt=/tmp/mut/$id; out=$wt/out/$v
log=/tmp/mut/confirm-$id-$v.log; : > $log
cd $wt || exit 2
git checkout -q -- . 2>/dev/null
bash $out/demo/run.sh $wt >>$log 2>&1; pristine=$?
git checkout -q -- . 2>/dev/null
git apply $out/patch.diff >>$log 2>&1 || { echo "$id-$v: patch does not apply"; exit 1; }
go build ./... >>$log 2>&1; build=$?
tests=0
if [ $# -gt 0 ]; then
  go test -vet=off -count=1 "$@" 2>&1 | grep -v "^ok\|no test files" | grep -v "from_remote_spec\|should_dump_template_data\|Test_GenerateClient\b\|should_generate_client$" > $log.tests
  # acceptable failures: the two network subtests (and their parents)
  if grep -q "^--- FAIL\|^FAIL" $log.tests; then
     if grep "^    --- FAIL\|^--- FAIL" $log.tests | grep -qv "Test_GenerateClient"; then tests=1; fi
  fi
fi
git checkout -q -- go.sum 2>/dev/null
bash $out/demo/run.sh $wt >>$log 2>&1; mutated=$?
git checkout -q -- . 2>/dev/null; git clean -fdq -e out 2>/dev/null
echo "$id-$v: demo_pristine=$pristine build=$build tests=$tests demo_mutated=$mutated"
if [ $pristine -eq 0 ] && [ $build -eq 0 ] && [ $tests -eq 0 ] && [ $mutated -ne 0 ]; then
  d=/verif/seeded/$id-$v; mkdir -p $d; cp $out/patch.diff $d/; rm -rf $d/demo; cp -r $out/demo $d/demo
  python3 - "$out/meta.json" "$d/meta.json" "$id" "$*" <<'PY'
import json,sys
src,dst,pid,pk=sys.argv[1:5]
try: m=json.load(open(src))
except Exception: m={}
m2={"property":pid,"summary":m.get("summary",""),"needs_to_manifest":m.get("what_it_needs_to_manifest",""),"files_touched":m.get("files_touched",[]),
    "confirmed_by_me":{"demo_on_pristine":"exit 0","patch_applies_and_builds":"go build ./... ok","existing_tests":"go test -vet=off -count=1 "+pk+" : pass (only the two network-dependent Test_GenerateClient subtests fail, as on the pristine tree)","demo_with_patch":"non-zero exit"},
    "agent_reported_tests":m.get("tests_run",[])}
json.dump(m2,open(dst,"w"),indent=1)
PY
  echo "  stored in $d"
fi
